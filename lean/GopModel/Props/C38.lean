/-
C38 — JSON-RPC framing round-trips any message stream.
Property theorems about `GopModel.Frame` (model of x/jsonrpc2 frame.go + messages.go).
-/
import GopModel.Model.Frame
namespace GopModel.Frame

/-! ## Digits: `ParseInt(Sprintf("%v", n)) = n` -/

theorem digit_facts : ∀ d, d < 10 →
    isDigit (digit d) = true ∧ (digit d).toNat - 48 = d ∧ isAsciiSpace (digit d) = false ∧
    digit d < 0x80 ∧ digit d ≠ 0x2b ∧ digit d ≠ 0x2d ∧ digit d ≠ 0x0a ∧ digit d ≠ 0x3a := by decide

/-- A byte string made of decimal digits. -/
def IsDigits (l : Bytes) : Prop := ∀ b ∈ l, ∃ d, d < 10 ∧ b = digit d

theorem parseDigits_append_digit (l : Bytes) (acc d : Nat) (hd : d < 10) :
    parseDigits (l ++ [digit d]) acc = (parseDigits l acc).map (· * 10 + d) := by
  induction l generalizing acc with
  | nil => simp [parseDigits, (digit_facts d hd).1, (digit_facts d hd).2.1]
  | cons b t ih =>
    simp only [List.cons_append, parseDigits]
    split
    · exact ih _
    · rfl

theorem decimalFuel_spec : ∀ f n, n < f →
    parseDigits (decimalFuel f n) 0 = some n ∧ IsDigits (decimalFuel f n) ∧ decimalFuel f n ≠ [] := by
  intro f
  induction f with
  | zero => intro n h; omega
  | succ f ih =>
    intro n h
    simp only [decimalFuel]
    split
    · rename_i h10
      refine ⟨by simp [parseDigits, (digit_facts n h10).1, (digit_facts n h10).2.1], ?_, by simp⟩
      intro b hb
      simp only [List.mem_singleton] at hb
      exact ⟨n, h10, hb⟩
    · rename_i h10
      obtain ⟨hp, hd, _⟩ := ih (n / 10) (by omega)
      have hm : n % 10 < 10 := Nat.mod_lt _ (by omega)
      refine ⟨?_, ?_, by simp⟩
      · rw [parseDigits_append_digit _ _ _ hm, hp]
        simp only [Option.map_some, Option.some.injEq]
        omega
      · intro b hb
        simp only [List.mem_append, List.mem_singleton] at hb
        rcases hb with hb | hb
        · exact hd b hb
        · exact ⟨n % 10, hm, hb⟩

theorem decimal_spec (n : Nat) :
    parseDigits (decimal n) 0 = some n ∧ IsDigits (decimal n) ∧ decimal n ≠ [] :=
  decimalFuel_spec (n + 1) n (Nat.lt_succ_self n)

theorem parseInt32_decimal (n : Nat) (h : n ≤ 2147483647) : parseInt32 (decimal n) = some (n : Int) := by
  obtain ⟨hp, hd, hne⟩ := decimal_spec n
  cases hdec : decimal n with
  | nil => exact absurd hdec hne
  | cons b t =>
    obtain ⟨d, hd10, rfl⟩ := hd b (by rw [hdec]; simp)
    have hf := digit_facts d hd10
    rw [hdec] at hp
    unfold parseInt32
    split
    · rename_i heq
      split at heq
      · rename_i h1; simp only [List.cons.injEq] at h1; exact absurd h1.1 hf.2.2.2.2.1
      · rename_i h1; simp only [List.cons.injEq] at h1; exact absurd h1.1 hf.2.2.2.2.2.1
      · simp only [Prod.mk.injEq] at heq
        obtain ⟨rfl, rfl⟩ := heq
        simp [hp, h]

/-- 2³¹ is written by the writer but rejected by the reader's 32-bit `ParseInt`. -/
theorem parseInt32_decimal_2p31 : parseInt32 (decimal 2147483648) = none := by decide

/-! ## TrimSpace on the lines the writer produces -/

theorem trimWith_zero (pre : Bytes → Nat) (f : Nat) (s : Bytes) (h : pre s = 0) :
    trimWith pre f s = s := by
  cases f <;> simp [trimWith, h]

theorem trimLeft_of_nonspace (s : Bytes) (h : spacePrefix s = 0) : trimLeft s = s :=
  trimWith_zero _ _ _ h

theorem trimRight_of_nonspace (s : Bytes) (h : spaceSuffixRev s.reverse = 0) : trimRight s = s := by
  simp [trimRight, trimWith_zero _ _ _ h]

theorem trimRight_crlf (s : Bytes) (h : spaceSuffixRev s.reverse = 0) :
    trimRight (s ++ crlf) = s := by
  have e : (s ++ crlf).reverse = 0x0a :: 0x0d :: s.reverse := by simp [crlf]
  have l : (s ++ crlf).length = s.length + 1 + 1 := by simp [crlf]
  unfold trimRight
  rw [e, l]
  have s1 : spaceSuffixRev (0x0a :: 0x0d :: s.reverse) = 1 := by
    simp [spaceSuffixRev, isAsciiSpace]
  have s2 : spaceSuffixRev (0x0d :: s.reverse) = 1 := by
    simp [spaceSuffixRev, isAsciiSpace]
  simp [trimWith, s1, s2, trimWith_zero _ _ _ h]

theorem spacePrefix_digit (d : Nat) (hd : d < 10) (t : Bytes) : spacePrefix (digit d :: t) = 0 := by
  have hf := digit_facts d hd
  simp [spacePrefix, hf.2.2.1, hf.2.2.2.1]

theorem spaceSuffixRev_digit (d : Nat) (hd : d < 10) (t : Bytes) :
    spaceSuffixRev (digit d :: t) = 0 := by
  have hf := digit_facts d hd
  simp [spaceSuffixRev, hf.2.2.1, hf.2.2.2.1]

/-- A non-empty digit string starts and ends with a non-space byte. -/
theorem digits_ends (ds : Bytes) (hd : IsDigits ds) (hne : ds ≠ []) (pre : Bytes) :
    spacePrefix ds = 0 ∧ spaceSuffixRev (pre ++ ds).reverse = 0 := by
  constructor
  · cases ds with
    | nil => exact absurd rfl hne
    | cons b t =>
      obtain ⟨d, hd10, rfl⟩ := hd b (by simp)
      exact spacePrefix_digit d hd10 t
  · have hr : ds.reverse ≠ [] := by simpa using hne
    cases hrev : ds.reverse with
    | nil => exact absurd hrev hr
    | cons b t =>
      have hb : b ∈ ds := by
        have : b ∈ ds.reverse := by rw [hrev]; simp
        simpa using this
      obtain ⟨d, hd10, rfl⟩ := hd b hb
      rw [List.reverse_append, hrev, List.cons_append]
      exact spaceSuffixRev_digit d hd10 _

theorem trimSpace_digits (ds : Bytes) (hd : IsDigits ds) (hne : ds ≠ []) :
    trimSpace (0x20 :: ds) = ds := by
  have h := digits_ends ds hd hne []
  have hl : trimLeft (0x20 :: ds) = ds := by
    have s1 : spacePrefix (0x20 :: ds) = 1 := by simp [spacePrefix, isAsciiSpace]
    simp [trimLeft, trimWith, s1, trimWith_zero _ _ _ h.1]
  rw [trimSpace, hl]
  exact trimRight_of_nonspace ds (by simpa using h.2)

/-- The header line the writer emits, without its CRLF. -/
def clHead (n : Nat) : Bytes := contentLength ++ [0x3a, 0x20] ++ decimal n

theorem classify_clLine_eq (n : Nat) :
    classify (clHead n ++ crlf) =
      (match parseInt32 (decimal n) with
       | none => .badLength
       | some v => if v ≤ 0 then .nonPositive v else .length v) := by
  obtain ⟨_, hd, hne⟩ := decimal_spec n
  have hends := digits_ends (decimal n) hd hne (contentLength ++ [0x3a, 0x20])
  have hleft : trimLeft (clHead n ++ crlf) = clHead n ++ crlf :=
    trimLeft_of_nonspace _ (by simp [clHead, contentLength, spacePrefix, isAsciiSpace])
  have htrim : trimSpace (clHead n ++ crlf) = clHead n := by
    rw [trimSpace, hleft]
    exact trimRight_crlf _ hends.2
  have hcolon : indexColon (clHead n) = some 14 := by
    simp [clHead, contentLength, indexColon]
  have hname : (clHead n).take 14 = contentLength := by
    simp [clHead, contentLength]
  have hval : (clHead n).drop 15 = 0x20 :: decimal n := by
    simp [clHead, contentLength]
  have hnil : (clHead n).isEmpty = false := by simp [clHead, contentLength]
  unfold classify
  simp only [htrim, hnil, hcolon, hname, hval, trimSpace_digits _ hd hne,
    Bool.false_eq_true, if_false, if_true]
  rfl

theorem classify_clLine (n : Nat) (h0 : 0 < n) (h : n ≤ 2147483647) :
    classify (clHead n ++ crlf) = .length (n : Int) := by
  rw [classify_clLine_eq, parseInt32_decimal n h]
  have hn0 : n ≠ 0 := by omega
  simp [hn0]

theorem classify_crlf : classify crlf = .blank := by decide

/-! ## ReadString('\n') -/

theorem splitLine_append (l rest : Bytes) (h : ∀ b ∈ l, b ≠ 0x0a) :
    splitLine (l ++ 0x0a :: rest) = some (l ++ [0x0a], rest) := by
  induction l with
  | nil => simp [splitLine]
  | cons b t ih =>
    have hb : b ≠ 0x0a := h b (by simp)
    have := ih (fun x hx => h x (List.mem_cons_of_mem _ hx))
    simp [splitLine, hb, this]

theorem splitLine_some : ∀ (s line rest : Bytes), splitLine s = some (line, rest) →
    s = line ++ rest ∧ ∃ l, line = l ++ [0x0a] ∧ ∀ b ∈ l, b ≠ 0x0a := by
  intro s
  induction s with
  | nil => intro _ _ h; simp [splitLine] at h
  | cons b t ih =>
    intro line rest h
    simp only [splitLine] at h
    split at h
    · rename_i hb
      simp only [Option.some.injEq, Prod.mk.injEq] at h
      obtain ⟨rfl, rfl⟩ := h
      exact ⟨by simp, [], by simp [hb], by simp⟩
    · rename_i hb
      split at h
      · cases h
      · rename_i l r heq
        simp only [Option.some.injEq, Prod.mk.injEq] at h
        obtain ⟨rfl, rfl⟩ := h
        obtain ⟨hs, l', hl', hno⟩ := ih l r heq
        refine ⟨by rw [hs]; simp, b :: l', by simp [hl'], ?_⟩
        intro x hx
        simp only [List.mem_cons] at hx
        rcases hx with rfl | hx
        · exact hb
        · exact hno x hx

theorem splitLine_none_append : ∀ (s : Bytes), splitLine s = none → ∀ b ∈ s, b ≠ 0x0a := by
  intro s
  induction s with
  | nil => intro _ b hb; simp at hb
  | cons c t ih =>
    intro h b hb
    simp only [splitLine] at h
    split at h
    · cases h
    · rename_i hc
      split at h
      · rename_i hn
        simp only [List.mem_cons] at hb
        rcases hb with rfl | hb
        · exact hc
        · exact ih hn b hb
      · cases h

/-- A complete line: ends with its only `'\n'`. -/
def IsLine (l : Bytes) : Prop := ∃ a, l = a ++ [0x0a] ∧ ∀ b ∈ a, b ≠ 0x0a

theorem splitLine_line (l rest : Bytes) (h : IsLine l) : splitLine (l ++ rest) = some (l, rest) := by
  obtain ⟨a, rfl, ha⟩ := h
  simpa [List.append_assoc] using splitLine_append a rest ha

theorem isLine_clLine (n : Nat) : IsLine (clHead n ++ crlf) := by
  refine ⟨clHead n ++ [0x0d], by simp [crlf], ?_⟩
  intro b hb
  simp only [clHead, List.mem_append, List.mem_singleton] at hb
  rcases hb with ((hb | hb) | hb) | hb
  · revert b; decide
  · revert b; decide
  · obtain ⟨d, hd, rfl⟩ := (decimal_spec n).2.1 b hb
    exact (digit_facts d hd).2.2.2.2.2.2.1
  · subst hb; decide

theorem isLine_crlf : IsLine crlf := ⟨[0x0d], rfl, by decide⟩

/-! ## The header loop -/

/-- Terminal line kinds stop the loop; the others continue it. -/
def LineKind.continues : LineKind → Bool
  | .unknown | .length _ => true
  | _ => false

/-- `length` after a run of continuing lines: the last Content-Length wins. -/
def lastLength (ks : List LineKind) (len : Int) : Int :=
  ks.foldl (fun acc k => match k with | .length n => n | _ => acc) len

/-- What the loop returns when it stops at a line of kind `k`. -/
def stopAt (k : LineKind) (total : Nat) (len : Int) (rest : Bytes) : HdrRes :=
  match k with
  | .blank => .done total len rest
  | .invalid => .err .invalidHeader total rest
  | .badLength => .err .badLength total rest
  | .nonPositive _ => .err .nonPositive total rest
  | _ => .outOfFuel   -- not a terminal kind

/-- The loop over complete lines: continuing lines are consumed (Content-Length ones set the
length, all others are ignored), the first terminal line decides, nothing after it is looked at. -/
theorem readHeader_lines : ∀ (lines : List Bytes) (last rest : Bytes) (fuel total : Nat) (len : Int),
    (∀ l ∈ lines, IsLine l ∧ (classify l).continues = true) → IsLine last →
    (classify last).continues = false → lines.length < fuel →
    readHeader fuel (lines.flatten ++ last ++ rest) total len =
      stopAt (classify last) (total + lines.flatten.length + last.length)
        (lastLength (lines.map classify) len) rest := by
  intro lines
  induction lines with
  | nil =>
    intro last rest fuel total len _ hlast hk hf
    cases fuel with
    | zero => simp at hf
    | succ f =>
      simp only [List.flatten_nil, List.nil_append, readHeader, splitLine_line last rest hlast,
        List.length_nil, Nat.add_zero, List.map_nil, lastLength, List.foldl_nil]
      cases hc : classify last <;> simp_all [LineKind.continues, stopAt]
  | cons l lines ih =>
    intro last rest fuel total len hall hlast hk hf
    cases fuel with
    | zero => simp at hf
    | succ f =>
      obtain ⟨hl, hc⟩ := hall l (by simp)
      have e : (l :: lines).flatten ++ last ++ rest = l ++ (lines.flatten ++ last ++ rest) := by
        simp [List.append_assoc]
      have hrec := ih last rest f (total + l.length)
      have hall' : ∀ x ∈ lines, IsLine x ∧ (classify x).continues = true :=
        fun x hx => hall x (List.mem_cons_of_mem _ hx)
      have hf' : lines.length < f := by simp at hf; omega
      rw [e]
      simp only [readHeader, splitLine_line l _ hl]
      cases hcl : classify l with
      | unknown =>
        simp only [List.map_cons, hcl, lastLength, List.foldl_cons]
        rw [hrec len hall' hlast hk hf']
        simp [lastLength, Nat.add_assoc]
      | length n =>
        simp only [List.map_cons, hcl, lastLength, List.foldl_cons]
        rw [hrec n hall' hlast hk hf']
        simp [lastLength, Nat.add_assoc]
      | blank => simp [hcl, LineKind.continues] at hc
      | invalid => simp [hcl, LineKind.continues] at hc
      | badLength => simp [hcl, LineKind.continues] at hc
      | nonPositive _ => simp [hcl, LineKind.continues] at hc

/-- The loop never runs out of fuel when given one unit per byte (it consumes ≥ 1 byte per line). -/
theorem readHeader_total : ∀ (fuel : Nat) (s : Bytes) (total : Nat) (len : Int),
    s.length < fuel → readHeader fuel s total len ≠ .outOfFuel := by
  intro fuel
  induction fuel with
  | zero => intro s _ _ h; omega
  | succ f ih =>
    intro s total len h
    simp only [readHeader]
    cases hs : splitLine s with
    | none => simp only []; split <;> simp
    | some p =>
      obtain ⟨line, rest⟩ := p
      obtain ⟨hcat, l, hl, _⟩ := splitLine_some s line rest hs
      have hlt : rest.length < f := by
        have : s.length = line.length + rest.length := by rw [hcat]; simp
        have : 0 < line.length := by rw [hl]; simp
        omega
      simp only []
      cases classify line <;> simp [ih rest _ _ hlt]

/-- Every outcome of the loop accounts for exactly the bytes it consumed. -/
theorem readHeader_consumes : ∀ (fuel : Nat) (s : Bytes) (total : Nat) (len : Int),
    (∀ t n r, readHeader fuel s total len = .done t n r →
        ∃ hdr, s = hdr ++ r ∧ t = total + hdr.length) ∧
    (∀ e t r, readHeader fuel s total len = .err e t r →
        ∃ hdr, s = hdr ++ r ∧ t = total + hdr.length) := by
  intro fuel
  induction fuel with
  | zero => intro s total len; simp [readHeader]
  | succ f ih =>
    intro s total len
    simp only [readHeader]
    cases hs : splitLine s with
    | none =>
      simp only []
      constructor
      · intro t n r h; split at h <;> cases h
      · intro e t r h
        split at h
        · cases h
        · cases h; exact ⟨s, by simp, rfl⟩
    | some p =>
      obtain ⟨line, rest⟩ := p
      obtain ⟨hcat, _⟩ := splitLine_some s line rest hs
      have step : ∀ len', (∀ t n r, readHeader f rest (total + line.length) len' = .done t n r →
            ∃ hdr, s = hdr ++ r ∧ t = total + hdr.length) ∧
          (∀ e t r, readHeader f rest (total + line.length) len' = .err e t r →
            ∃ hdr, s = hdr ++ r ∧ t = total + hdr.length) := by
        intro len'
        obtain ⟨h1, h2⟩ := ih rest (total + line.length) len'
        constructor
        · intro t n r h
          obtain ⟨hdr, hr, ht⟩ := h1 t n r h
          exact ⟨line ++ hdr, by rw [hcat, hr]; simp, by rw [ht]; simp; omega⟩
        · intro e t r h
          obtain ⟨hdr, hr, ht⟩ := h2 e t r h
          exact ⟨line ++ hdr, by rw [hcat, hr]; simp, by rw [ht]; simp; omega⟩
      simp only []
      cases classify line with
      | blank =>
        constructor
        · intro t n r h; cases h; exact ⟨line, hcat, rfl⟩
        · intro e t r h; cases h
      | invalid =>
        constructor
        · intro t n r h; cases h
        · intro e t r h; cases h; exact ⟨line, hcat, rfl⟩
      | unknown => exact step len
      | length n => exact step n
      | badLength =>
        constructor
        · intro t n r h; cases h
        · intro e t r h; cases h; exact ⟨line, hcat, rfl⟩
      | nonPositive _ =>
        constructor
        · intro t n r h; cases h
        · intro e t r h; cases h; exact ⟨line, hcat, rfl⟩

/-- The loop does not look past the bytes it consumed: whatever follows them is handed on
untouched, and more fuel changes nothing. -/
theorem readHeader_done_ext : ∀ (fuel : Nat) (s : Bytes) (total : Nat) (len : Int) (t : Nat) (n : Int)
    (r x : Bytes) (fuel' : Nat), fuel ≤ fuel' →
    readHeader fuel s total len = .done t n r →
    readHeader fuel' (s ++ x) total len = .done t n (r ++ x) := by
  intro fuel
  induction fuel with
  | zero => intro s total len t n r x fuel' _ h; simp [readHeader] at h
  | succ f ih =>
    intro s total len t n r x fuel' hf h
    cases fuel' with
    | zero => omega
    | succ f' =>
      simp only [readHeader] at h ⊢
      cases hs : splitLine s with
      | none => rw [hs] at h; simp only [] at h; split at h <;> cases h
      | some p =>
        obtain ⟨line, rest⟩ := p
        obtain ⟨hcat, l, hl, hno⟩ := splitLine_some s line rest hs
        have hs' : splitLine (s ++ x) = some (line, rest ++ x) := by
          rw [hcat, List.append_assoc]
          exact splitLine_line line (rest ++ x) ⟨l, hl, hno⟩
        rw [hs] at h
        rw [hs']
        simp only [] at h ⊢
        have hf' : f ≤ f' := by omega
        cases hc : classify line with
        | blank => rw [hc] at h; simp only [] at h ⊢; cases h; rfl
        | invalid => rw [hc] at h; cases h
        | unknown => rw [hc] at h; simp only [] at h ⊢; exact ih rest _ _ t n r x f' hf' h
        | length m => rw [hc] at h; simp only [] at h ⊢; exact ih rest _ _ t n r x f' hf' h
        | badLength => rw [hc] at h; cases h
        | nonPositive _ => rw [hc] at h; cases h

/-- Only a positive value ever becomes the length. -/
theorem classify_length_pos (line : Bytes) (m : Int) (h : classify line = .length m) : 0 < m := by
  simp only [classify] at h
  split at h
  · cases h
  · split at h
    · cases h
    · split at h
      · split at h
        · cases h
        · split at h
          · cases h
          · cases h; omega
      · cases h

theorem readHeader_done_nonneg : ∀ (fuel : Nat) (s : Bytes) (total : Nat) (len : Int) (t : Nat)
    (n : Int) (r : Bytes), readHeader fuel s total len = .done t n r → 0 ≤ len → 0 ≤ n := by
  intro fuel
  induction fuel with
  | zero => intro s total len t n r h; simp [readHeader] at h
  | succ f ih =>
    intro s total len t n r h hlen
    simp only [readHeader] at h
    cases hs : splitLine s with
    | none => rw [hs] at h; simp only [] at h; split at h <;> cases h
    | some p =>
      obtain ⟨line, rest⟩ := p
      rw [hs] at h
      simp only [] at h
      cases hc : classify line with
      | blank => rw [hc] at h; cases h; exact hlen
      | invalid => rw [hc] at h; cases h
      | unknown => rw [hc] at h; exact ih _ _ _ _ _ _ h hlen
      | length m =>
        rw [hc] at h
        have := classify_length_pos line m hc
        exact ih _ _ _ _ _ _ h (by omega)
      | badLength => rw [hc] at h; cases h
      | nonPositive _ => rw [hc] at h; cases h

/-- The loop's answer depends only on the bytes it consumed: replace whatever follows them by
anything (`y`) and give it any larger fuel — same answer. -/
theorem readHeader_prefix : ∀ (fuel : Nat) (s : Bytes) (total : Nat) (len : Int) (t : Nat) (n : Int)
    (r y : Bytes) (fuel' : Nat), fuel ≤ fuel' →
    readHeader fuel s total len = .done t n r →
    readHeader fuel' (s.take (t - total) ++ y) total len = .done t n y := by
  intro fuel
  induction fuel with
  | zero => intro s total len t n r y fuel' _ h; simp [readHeader] at h
  | succ f ih =>
    intro s total len t n r y fuel' hf h
    cases fuel' with
    | zero => omega
    | succ f' =>
      have hf' : f ≤ f' := by omega
      simp only [readHeader] at h
      cases hs : splitLine s with
      | none => rw [hs] at h; simp only [] at h; split at h <;> cases h
      | some p =>
        obtain ⟨line, rest⟩ := p
        obtain ⟨hcat, l, hl, hno⟩ := splitLine_some s line rest hs
        have hline : IsLine line := ⟨l, hl, hno⟩
        rw [hs] at h
        simp only [] at h
        have cont : ∀ len', readHeader f rest (total + line.length) len' = .done t n r →
            readHeader (f' + 1) (s.take (t - total) ++ y) total len =
              (match classify line with
               | .blank => .done (total + line.length) len (rest.take (t - (total + line.length)) ++ y)
               | .invalid => .err .invalidHeader (total + line.length) (rest.take (t - (total + line.length)) ++ y)
               | .unknown => readHeader f' (rest.take (t - (total + line.length)) ++ y) (total + line.length) len
               | .length m => readHeader f' (rest.take (t - (total + line.length)) ++ y) (total + line.length) m
               | .badLength => .err .badLength (total + line.length) (rest.take (t - (total + line.length)) ++ y)
               | .nonPositive _ => .err .nonPositive (total + line.length) (rest.take (t - (total + line.length)) ++ y)) := by
          intro len' hrec
          obtain ⟨hdr, _, ht⟩ := (readHeader_consumes f rest (total + line.length) len').1 t n r hrec
          have e : s.take (t - total) ++ y = line ++ (rest.take (t - (total + line.length)) ++ y) := by
            rw [hcat, List.take_append]
            have h1 : List.take (t - total) line = line := List.take_of_length_le (by omega)
            have h2 : t - total - line.length = t - (total + line.length) := by omega
            rw [h1, h2, List.append_assoc]
          rw [e]
          simp only [readHeader, splitLine_line line _ hline]
          cases classify line <;> rfl
        cases hc : classify line with
        | blank =>
          rw [hc] at h; cases h
          have e : s.take (total + line.length - total) ++ y = line ++ y := by
            rw [hcat, Nat.add_sub_cancel_left, List.take_left' rfl]
          rw [e]
          simp only [readHeader, splitLine_line line y hline, hc]
        | invalid => rw [hc] at h; cases h
        | unknown =>
          rw [hc] at h
          rw [cont len h, hc]
          exact ih rest _ _ t n r y f' hf' h
        | length m =>
          rw [hc] at h
          rw [cont m h, hc]
          exact ih rest _ _ t n r y f' hf' h
        | badLength => rw [hc] at h; cases h
        | nonPositive _ => rw [hc] at h; cases h

/-- Any fuel above the stream length gives the same answer. -/
theorem readHeader_fuel_irrel : ∀ (f1 f2 : Nat) (s : Bytes) (total : Nat) (len : Int),
    s.length < f1 → s.length < f2 → readHeader f1 s total len = readHeader f2 s total len := by
  intro f1
  induction f1 with
  | zero => intro f2 s _ _ h; omega
  | succ f1 ih =>
    intro f2 s total len h1 h2
    cases f2 with
    | zero => omega
    | succ f2 =>
      simp only [readHeader]
      cases hs : splitLine s with
      | none => rfl
      | some p =>
        obtain ⟨line, rest⟩ := p
        obtain ⟨hcat, l, hl, _⟩ := splitLine_some s line rest hs
        have hlt : rest.length < s.length := by
          have : s.length = line.length + rest.length := by rw [hcat]; simp
          have : 0 < line.length := by rw [hl]; simp
          omega
        simp only []
        cases classify line <;> simp only [] <;> exact ih f2 rest _ _ (by omega) (by omega)

/-! ## Property theorems (C38): the reader -/

/-- `read_total`: every byte stream gives a frame, a clean EOF or an error — the header loop
terminates (there is no panic outcome in `Read`: all slicing is guarded by `IndexRune ≥ 0`). -/
theorem C38_read_total (s : Bytes) : readFrame s ≠ .outOfFuel := by
  unfold readFrame
  have := readHeader_total (s.length + 1) s 0 0 (Nat.lt_succ_self _)
  cases h : readHeader (s.length + 1) s 0 0 with
  | outOfFuel => exact absurd h this
  | eof => simp
  | err e t r => simp
  | done t n r =>
    simp only []
    split
    · simp
    · split
      · simp
      · split <;> simp

/-- Facts shared by the next theorems about a successful `Read`. -/
theorem readFrame_ok_inv (s data rest : Bytes) (total : Nat) (h : readFrame s = .ok data total rest) :
    ∃ (hdr : Bytes) (n : Int),
      readHeader (s.length + 1) s 0 0 = .done hdr.length n (data ++ rest) ∧
      s = hdr ++ (data ++ rest) ∧ total = hdr.length + data.length ∧ 0 < n ∧ (data.length : Int) = n := by
  unfold readFrame at h
  cases hh : readHeader (s.length + 1) s 0 0 with
  | outOfFuel => rw [hh] at h; cases h
  | eof => rw [hh] at h; cases h
  | err e t r => rw [hh] at h; cases h
  | done t n r =>
    rw [hh] at h
    simp only [] at h
    obtain ⟨hdr, hs, ht⟩ := (readHeader_consumes _ s 0 0).1 t n r hh
    have hnn := readHeader_done_nonneg _ _ _ _ _ _ _ hh (Int.le_refl 0)
    split at h
    · cases h
    · rename_i hn0
      split at h
      · rename_i hle
        cases h
        have htd : r.take n.toNat ++ r.drop n.toNat = r := List.take_append_drop _ _
        have hlen : (r.take n.toNat).length = n.toNat := by simp [List.length_take]; omega
        refine ⟨hdr, n, ?_, ?_, ?_, ?_, ?_⟩
        · rw [htd, ht]; simp
        · rw [htd]; exact hs
        · rw [hlen]; omega
        · omega
        · rw [hlen]; omega
      · split at h <;> cases h

/-- `read_exact`: a successful `Read` consumed exactly `header ++ payload` and nothing else; the
payload has the declared length (the positive value the header loop ended with). -/
theorem C38_read_exact (s data rest : Bytes) (total : Nat) (h : readFrame s = .ok data total rest) :
    ∃ (hdr : Bytes) (n : Int),
      s = hdr ++ data ++ rest ∧ total = hdr.length + data.length ∧
      readHeader (s.length + 1) s 0 0 = .done hdr.length n (data ++ rest) ∧
      0 < n ∧ (data.length : Int) = n := by
  obtain ⟨hdr, n, hh, hs, ht, hn, hd⟩ := readFrame_ok_inv s data rest total h
  exact ⟨hdr, n, by rw [hs, List.append_assoc], ht, hh, hn, hd⟩

/-- "Never reads past the declared content length": a successful `Read` depends only on the
`total` bytes it reports as consumed — put anything else (`y`) after them and it returns the
same payload, the same count, and `y` untouched. -/
theorem C38_read_independent_of_rest (s data rest y : Bytes) (total : Nat)
    (h : readFrame s = .ok data total rest) :
    readFrame (s.take total ++ y) = .ok data total y := by
  obtain ⟨hdr, n, hh, hs, ht, hn, hd⟩ := readFrame_ok_inv s data rest total h
  have htake : s.take total = hdr ++ data := by
    rw [hs, ht, ← List.append_assoc, List.take_left' (by simp)]
  have hpre := readHeader_prefix (s.length + 1) s 0 0 hdr.length n (data ++ rest) (data ++ y)
    ((hdr ++ data ++ y).length + 1 + s.length) (by omega) hh
  have htk : s.take (hdr.length - 0) = hdr := by
    rw [hs, Nat.sub_zero, List.take_left' rfl]
  rw [htk] at hpre
  have hfuel : readHeader ((hdr ++ data ++ y).length + 1) (hdr ++ data ++ y) 0 0 =
      .done hdr.length n (data ++ y) := by
    rw [← hpre, List.append_assoc]
    exact readHeader_fuel_irrel _ _ _ _ _ (by simp) (by simp; omega)
  rw [htake]
  unfold readFrame
  rw [hfuel]
  have hnz : n ≠ 0 := by omega
  have hto : n.toNat = data.length := by omega
  simp [hnz, hto, ht]

/-- A failing `Read` also accounts for what it consumed: `total` bytes, the rest untouched. -/
theorem C38_read_err_consumes (s rest : Bytes) (e : ReadErr) (total : Nat)
    (h : readFrame s = .err e total rest) : ∃ pre, s = pre ++ rest ∧ total = pre.length := by
  unfold readFrame at h
  cases hh : readHeader (s.length + 1) s 0 0 with
  | outOfFuel => rw [hh] at h; cases h
  | eof => rw [hh] at h; cases h
  | err e' t r =>
    rw [hh] at h; cases h
    obtain ⟨hdr, hs, ht⟩ := (readHeader_consumes _ s 0 0).2 _ _ _ hh
    exact ⟨hdr, hs, by omega⟩
  | done t n r =>
    rw [hh] at h
    simp only [] at h
    obtain ⟨hdr, hs, ht⟩ := (readHeader_consumes _ s 0 0).1 t n r hh
    split at h
    · cases h; exact ⟨hdr, hs, by omega⟩
    · split at h
      · cases h
      · split at h
        · rename_i hemp
          cases h
          have : r = [] := by simpa using hemp
          exact ⟨hdr, by rw [hs, this], by omega⟩
        · cases h; exact ⟨s, by simp, by rw [hs]; simp; omega⟩

/-- `header_rules`: a header made of complete lines is processed line by line; lines that are
neither blank, malformed nor a bad Content-Length are skipped (unknown headers are ignored), each
valid `Content-Length` replaces the previous one (the last wins), and the first blank / colon-less /
unparsable / non-positive line ends the loop with `done` / the corresponding error; bytes after
that line are not inspected. -/
theorem C38_header_rules (lines : List Bytes) (last rest : Bytes) (fuel : Nat)
    (hl : ∀ l ∈ lines, IsLine l ∧ (classify l).continues = true) (hlast : IsLine last)
    (hk : (classify last).continues = false) (hf : lines.length < fuel) :
    readHeader fuel (lines.flatten ++ last ++ rest) 0 0 =
      stopAt (classify last) (lines.flatten.length + last.length)
        (lastLength (lines.map classify) 0) rest := by
  simpa using readHeader_lines lines last rest fuel 0 0 hl hlast hk hf

/-- A header without Content-Length (or whose lines all are unknown headers) is an error, and so
is a Content-Length ≤ 0 or one that `ParseInt(…, 10, 32)` rejects. -/
theorem C38_header_rejections (s : Bytes) (t : Nat) (r : Bytes) :
    (readHeader (s.length + 1) s 0 0 = .done t 0 r → readFrame s = .err .missingLength t r) ∧
    (∀ e, readHeader (s.length + 1) s 0 0 = .err e t r → readFrame s = .err e t r) := by
  constructor
  · intro h; simp [readFrame, h]
  · intro e h; simp [readFrame, h]

/-! ## Property theorems (C38): writer → reader -/

theorem writeFrame_eq (p : Bytes) :
    writeFrame p = [clHead p.length ++ crlf].flatten ++ crlf ++ p := by
  simp [writeFrame, clHead, List.append_assoc]

theorem writeFrame_length_pos (p : Bytes) : 0 < (writeFrame p).length := by
  simp [writeFrame, contentLength]

/-- One frame: what the writer wrote is read back exactly, the following bytes are untouched. -/
theorem readFrame_writeFrame (p rest : Bytes) (h0 : 0 < p.length) (h : p.length ≤ 2147483647) :
    readFrame (writeFrame p ++ rest) = .ok p (writeFrame p).length rest := by
  have hcl := classify_clLine p.length h0 h
  have hdr := readHeader_lines [clHead p.length ++ crlf] crlf (p ++ rest)
    ((writeFrame p ++ rest).length + 1) 0 0
    (by intro l hl; simp only [List.mem_singleton] at hl; subst hl
        exact ⟨isLine_clLine _, by rw [hcl]; rfl⟩)
    isLine_crlf (by rw [classify_crlf]; rfl)
    (by have := writeFrame_length_pos p; simp only [List.length_append, List.length_cons, List.length_nil]; omega)
  have e : writeFrame p ++ rest = [clHead p.length ++ crlf].flatten ++ crlf ++ (p ++ rest) := by
    rw [writeFrame_eq]; simp [List.append_assoc]
  unfold readFrame
  rw [← e] at hdr
  rw [hdr, classify_crlf]
  simp only [stopAt, List.map_cons, List.map_nil, hcl, lastLength, List.foldl_cons, List.foldl_nil]
  have hn0 : (p.length : Int) ≠ 0 := by omega
  simp only [hn0, if_false, Int.toNat_natCast, List.length_append, Nat.le_add_right, if_true,
    List.take_left', List.drop_left']
  simp [writeFrame_eq, List.append_assoc, Nat.add_assoc]

theorem readAll_frames : ∀ (ps : List Bytes) (fuel : Nat),
    (∀ p ∈ ps, 0 < p.length ∧ p.length ≤ 2147483647) → ps.length < fuel →
    readAll fuel (ps.flatMap writeFrame) = (ps.map fun p => (p, (writeFrame p).length), .eof) := by
  intro ps
  induction ps with
  | nil =>
    intro fuel _ hf
    cases fuel with
    | zero => omega
    | succ f => simp [readAll, readFrame, readHeader, splitLine]
  | cons p ps ih =>
    intro fuel hall hf
    cases fuel with
    | zero => omega
    | succ f =>
      obtain ⟨h0, h⟩ := hall p (by simp)
      simp only [List.flatMap_cons, readAll, readFrame_writeFrame p _ h0 h]
      rw [ih f (fun q hq => hall q (List.mem_cons_of_mem _ hq)) (by simp at hf; omega)]
      simp

/-- `frames_roundtrip`: for every list of payloads of 1 … 2³¹−1 bytes, reading the concatenation
of the frames the writer produces yields exactly these payloads, in order, each `Read` reporting
the size of its frame, and then a clean EOF. -/
theorem C38_frames_roundtrip (ps : List Bytes)
    (h : ∀ p ∈ ps, 0 < p.length ∧ p.length ≤ 2147483647) :
    readStream (ps.flatMap writeFrame) = (ps.map fun p => (p, (writeFrame p).length), .eof) := by
  apply readAll_frames ps _ h
  have : ∀ qs : List Bytes, qs.length ≤ (qs.flatMap writeFrame).length := by
    intro qs
    induction qs with
    | nil => simp
    | cons q qs ih =>
      have := writeFrame_length_pos q
      simp only [List.flatMap_cons, List.length_append, List.length_cons]; omega
  have := this ps
  omega

/-- FULL statement would be: the round trip holds for EVERY non-empty payload.  It does not:
the reader parses Content-Length with `strconv.ParseInt(value, 10, 32)`, so a payload of 2³¹ bytes
(which the writer frames without complaint) is refused.  (An empty payload is never produced by
`EncodeMessage`; the reader refuses `Content-Length: 0` by design.) -/
theorem C38_length_2p31_not_readable (p rest : Bytes) (h : p.length = 2147483648) :
    ∃ t r, readFrame (writeFrame p ++ rest) = .err .badLength t r := by
  have hline : IsLine (clHead p.length ++ crlf) := isLine_clLine _
  have hcl : classify (clHead p.length ++ crlf) = .badLength := by
    rw [classify_clLine_eq, h, parseInt32_decimal_2p31]
  have hdr := readHeader_lines [] (clHead p.length ++ crlf) (crlf ++ p ++ rest)
    ((writeFrame p ++ rest).length + 1) 0 0 (by simp) hline (by rw [hcl]; rfl) (by simp)
  have e : writeFrame p ++ rest = ([] : List Bytes).flatten ++ (clHead p.length ++ crlf) ++ (crlf ++ p ++ rest) := by
    simp [writeFrame, clHead, List.append_assoc]
  unfold readFrame
  rw [← e] at hdr
  rw [hdr, hcl]
  exact ⟨_, _, rfl⟩

/-! ## Property theorems (C38): messages over an abstract JSON codec -/

theorem roundF64_small (i : Int) (h : i.natAbs ≤ 9007199254740992) : roundF64 i = i := by
  unfold roundF64 roundF64Nat
  simp only [h, if_true]
  split <;> omega

theorem idThroughJSON_small (i : Int) (h : i.natAbs ≤ 9007199254740992) : idThroughJSON i = i := by
  unfold idThroughJSON toInt64
  rw [roundF64_small i h]
  split
  · rfl
  · omega

/-- Integer ids are kept only up to 2⁵³ in absolute value. -/
def Id.Ok : Id → Prop
  | .none => True
  | .int i => i.natAbs ≤ 9007199254740992
  | .str _ => True

/-- The messages for which the round trip is claimed: a request has a method; a response has an
id; integer ids fit a float64 mantissa. (Strings are byte strings that the codec carries
unchanged, i.e. valid UTF-8; raw JSON fields are in compact form: both are assumptions on `Codec`.) -/
def Msg.Ok : Msg → Prop
  | .request id m _ => m ≠ [] ∧ id.Ok
  | .response id _ _ => id ≠ .none ∧ id.Ok

instance (i : Id) : Decidable i.Ok := by cases i <;> unfold Id.Ok <;> infer_instance
instance (m : Msg) : Decidable m.Ok := by cases m <;> unfold Msg.Ok <;> infer_instance

/-- `msg_roundtrip` — PARTIAL (restricted to `Msg.Ok`, over the abstract codec):
`DecodeMessage(EncodeMessage(m)) = m`. -/
theorem C38_msg_roundtrip_partial (c : Codec) (m : Msg) (h : m.Ok) :
    decodeMessage c (encodeMessage c m) = .ok m := by
  unfold decodeMessage encodeMessage
  rw [c.dec_enc]
  cases m with
  | request id meth p =>
    obtain ⟨hm, hid⟩ := h
    cases id with
    | none => simp [decodeWire, view, marshal, hm]
    | int i => simp [decodeWire, view, marshal, hm, idThroughJSON_small i hid]
    | str s => simp [decodeWire, view, marshal, hm]
  | response id r e =>
    obtain ⟨hne, hid⟩ := h
    cases id with
    | none => exact absurd rfl hne
    | int i => simp [decodeWire, view, marshal, idThroughJSON_small i hid]
    | str s => simp [decodeWire, view, marshal]

/-- The full statement ("every request/notification/response reads back the same") is FALSE on
the unchanged tree: ids are decoded through float64.  `Int64ID(2⁵³+1)` reads back as `2⁵³`,
whatever the JSON codec. -/
theorem C38_int_id_beyond_2p53_changes (c : Codec) (meth p : Bytes) (hm : meth ≠ []) :
    decodeMessage c (encodeMessage c (.request (.int 9007199254740993) meth p)) =
      .ok (.request (.int 9007199254740992) meth p) := by
  unfold decodeMessage encodeMessage
  rw [c.dec_enc]
  have : idThroughJSON 9007199254740993 = 9007199254740992 := by decide
  simp [decodeWire, view, marshal, hm, this]

/-- Messages outside `Msg.Ok` that do not come back: a request without method and id is refused,
one with an id comes back as a response. -/
theorem C38_degenerate_requests (c : Codec) (p : Bytes) :
    decodeMessage c (encodeMessage c (.request .none [] p)) = .error .invalidRequest ∧
    decodeMessage c (encodeMessage c (.request (.int 1) [] p)) = .ok (.response (.int 1) [] none) := by
  unfold decodeMessage encodeMessage
  rw [c.dec_enc, c.dec_enc]
  have : idThroughJSON 1 = 1 := by decide
  constructor <;> simp [decodeWire, view, marshal, this]

/-- Whole pipeline — PARTIAL: any sequence of `Msg.Ok` messages whose encodings have 1 … 2³¹−1
bytes is read back from the written stream, in order, followed by a clean EOF. -/
theorem C38_stream_roundtrip_partial (c : Codec) (ms : List Msg) (hok : ∀ m ∈ ms, m.Ok)
    (hsz : ∀ m ∈ ms, 0 < (encodeMessage c m).length ∧ (encodeMessage c m).length ≤ 2147483647) :
    let r := readStream (ms.flatMap fun m => writeFrame (encodeMessage c m))
    r.1.map (fun f => decodeMessage c f.1) = ms.map .ok ∧ r.2 = .eof := by
  have h := C38_frames_roundtrip (ms.map (encodeMessage c))
    (by intro p hp; obtain ⟨m, hm, rfl⟩ := List.mem_map.mp hp; exact hsz m hm)
  have e : (ms.map (encodeMessage c)).flatMap writeFrame
      = ms.flatMap fun m => writeFrame (encodeMessage c m) := by
    simp [List.flatMap_map]
  rw [e] at h
  intro r
  have hr : r = ((ms.map (encodeMessage c)).map fun p => (p, (writeFrame p).length), .eof) := h
  rw [hr]
  refine ⟨?_, rfl⟩
  simp only [List.map_map]
  apply List.map_congr_left
  intro m hm
  simpa using C38_msg_roundtrip_partial c m (hok m hm)

/-- What `DecodeMessage` returns is always a well-shaped message: a request has a method, a
response has an id. -/
theorem decodeWire_shape (d : DWire) (m : Msg) (h : decodeWire d = .ok m) :
    match m with
    | .request _ meth _ => meth ≠ []
    | .response id _ _ => id ≠ .none := by
  unfold decodeWire at h
  split at h
  · cases h
  · split at h
    · cases h
    · rename_i id _
      split at h
      · rename_i hm; cases h; exact hm
      · split at h
        · cases h
        · rename_i hid; cases h; exact hid

/-- Integer id small enough for a float64 mantissa (string and absent ids always are). -/
def Msg.idSmall : Msg → Prop
  | .request id _ _ => id.Ok
  | .response id _ _ => id.Ok

/-- Relay round trip — PARTIAL (abstract codec, ids up to 2⁵³): a message that was DECODED from
the wire (whatever text it came from: unknown members, odd id spellings, an error object with any
`data`) and is written again reads back as the same message — code, message and `data` of the
error included (`WErr` carries all three and `marshal` passes the error through unchanged). -/
theorem C38_relay_roundtrip_partial (c : Codec) (d : DWire) (m : Msg) (h : decodeWire d = .ok m)
    (hid : m.idSmall) : decodeMessage c (encodeMessage c m) = .ok m := by
  apply C38_msg_roundtrip_partial
  have hs := decodeWire_shape d m h
  cases m with
  | request id meth p => exact ⟨hs, hid⟩
  | response id r e => exact ⟨hs, hid⟩

/-- …in particular for bytes: `decode (encode (decode bytes)) = decode bytes`. -/
theorem C38_relay_bytes_partial (c : Codec) (data : Bytes) (m : Msg)
    (h : decodeMessage c data = .ok m) (hid : m.idSmall) :
    decodeMessage c (encodeMessage c m) = decodeMessage c data := by
  rw [h]
  unfold decodeMessage at h
  split at h
  · cases h
  · rename_i w _
    exact C38_relay_roundtrip_partial c w m h hid

example : decodeWire (⟨version20, .float 5, [], [], [], some ⟨-32000, [0x6d], [0x5b, 0x31, 0x5d]⟩⟩ : DWire) =
    .ok (.response (.int 5) [] (some ⟨-32000, [0x6d], [0x5b, 0x31, 0x5d]⟩)) := by simp [decodeWire]

/-! ## Non-vacuity: a concrete codec, concrete streams -/

namespace Toy
/-- A (deliberately simple) injective serialisation, to show that `Codec` is inhabited. -/
def encNat (n : Nat) : Bytes := List.replicate n 1 ++ [0]
def getNat : Bytes → Option (Nat × Bytes)
  | [] => none
  | b :: t =>
    if b = 0 then some (0, t)
    else match getNat t with
      | some (n, r) => some (n + 1, r)
      | none => none
theorem getNat_rep (n : Nat) (r : Bytes) : getNat (List.replicate n 1 ++ 0 :: r) = some (n, r) := by
  induction n with
  | zero => simp [getNat]
  | succ n ih => simp [List.replicate_succ, getNat, ih]
theorem getNat_enc (n : Nat) (r : Bytes) : getNat (encNat n ++ r) = some (n, r) := by
  simpa [encNat] using getNat_rep n r

def encBytes (l : Bytes) : Bytes := encNat l.length ++ l
def getBytes (s : Bytes) : Option (Bytes × Bytes) :=
  match getNat s with
  | some (n, r) => some (r.take n, r.drop n)
  | none => none
theorem getBytes_enc (l r : Bytes) : getBytes (encBytes l ++ r) = some (l, r) := by
  simp [getBytes, encBytes, List.append_assoc, getNat_enc]

def encInt (i : Int) : Bytes := (if i < 0 then [1] else [0]) ++ encNat i.natAbs
def getInt : Bytes → Option (Int × Bytes)
  | [] => none
  | sg :: t =>
    match getNat t with
    | some (n, r) => some (if sg = 1 then -(n : Int) else (n : Int), r)
    | none => none
theorem getInt_enc (i : Int) (r : Bytes) : getInt (encInt i ++ r) = some (i, r) := by
  unfold encInt
  split
  · simp only [List.cons_append, List.nil_append, getInt, getNat_enc]; simp; omega
  · simp only [List.cons_append, List.nil_append, getInt, getNat_enc]; simp; omega

def encId : Id → Bytes
  | .none => [0]
  | .int i => 1 :: encInt i
  | .str s => 2 :: encBytes s
def getId : Bytes → Option (Id × Bytes)
  | [] => none
  | tg :: t =>
    if tg = 0 then some (.none, t)
    else if tg = 1 then (match getInt t with | some (i, r) => some (.int i, r) | none => none)
    else (match getBytes t with | some (b, r) => some (.str b, r) | none => none)
theorem getId_enc (i : Id) (r : Bytes) : getId (encId i ++ r) = some (i, r) := by
  cases i <;> simp [encId, getId, getInt_enc, getBytes_enc]

def encErr : Option WErr → Bytes
  | none => [0]
  | some e => 1 :: (encInt e.code ++ encBytes e.message ++ encBytes e.data)
def getErr : Bytes → Option (Option WErr × Bytes)
  | [] => none
  | tg :: t =>
    if tg = 0 then some (none, t)
    else match getInt t with
      | none => none
      | some (c, r1) =>
        match getBytes r1 with
        | none => none
        | some (m, r2) =>
          match getBytes r2 with
          | none => none
          | some (d, r3) => some (some ⟨c, m, d⟩, r3)
theorem getErr_enc (e : Option WErr) (r : Bytes) : getErr (encErr e ++ r) = some (e, r) := by
  cases e with
  | none => simp [encErr, getErr]
  | some e => simp [encErr, getErr, List.append_assoc, getInt_enc, getBytes_enc]

def encWire (w : Wire) : Bytes :=
  encBytes w.version ++ encId w.id ++ encBytes w.method ++ encBytes w.params ++ encBytes w.result ++
    encErr w.error
def getWire (s : Bytes) : Option Wire :=
  match getBytes s with
  | none => none
  | some (v, r1) =>
    match getId r1 with
    | none => none
    | some (i, r2) =>
      match getBytes r2 with
      | none => none
      | some (m, r3) =>
        match getBytes r3 with
        | none => none
        | some (p, r4) =>
          match getBytes r4 with
          | none => none
          | some (res, r5) =>
            match getErr r5 with
            | none => none
            | some (e, _) => some ⟨v, i, m, p, res, e⟩
theorem getWire_enc (w : Wire) : getWire (encWire w) = some w := by
  have h := getErr_enc w.error []
  simp only [List.append_nil] at h
  simp [getWire, encWire, List.append_assoc, getBytes_enc, getId_enc, h]

/-- `Codec` is inhabited. -/
def codec : Codec where
  enc := encWire
  dec := fun b => (getWire b).map view
  dec_enc := by intro w; simp [getWire_enc]
end Toy

def exMsgs : List Msg :=
  [.request (.int 7) [0x6d] [0x7b, 0x7d], .request .none [0x6e] [], .response (.str [0x61]) [0x31] none,
   .response (.int (-9007199254740992)) [] (some ⟨-32601, [0x78], []⟩)]

example : ∀ m ∈ exMsgs, m.Ok := by decide
set_option maxRecDepth 8000 in
example : ∀ m ∈ exMsgs.take 3, 0 < (encodeMessage Toy.codec m).length ∧
    (encodeMessage Toy.codec m).length ≤ 2147483647 := by decide

/-- `Content-Length: 2\r\n\r\n{}` then `Content-Length: 3\r\n\r\n[1]`: two frames, EOF. -/
example : readStream (writeFrame [0x7b, 0x7d] ++ writeFrame [0x5b, 0x31, 0x5d]) =
    ([([0x7b, 0x7d], 23), ([0x5b, 0x31, 0x5d], 24)], .eof) := by decide

def ascii (s : String) : Bytes := s.toUTF8.toList

/-- Header rules on concrete lines (what `classify` says). -/
example : classify [0x43, 0x6f, 0x6e, 0x74, 0x65, 0x6e, 0x74, 0x2d, 0x4c, 0x65, 0x6e, 0x67, 0x74, 0x68,
    0x3a, 0x35, 0x0a] = .length 5 := by decide                      -- "Content-Length:5\n"
example : classify [0x63, 0x6f, 0x6e, 0x74, 0x65, 0x6e, 0x74, 0x2d, 0x6c, 0x65, 0x6e, 0x67, 0x74, 0x68,
    0x3a, 0x35, 0x0a] = .unknown := by decide                       -- "content-length:5\n" (case matters)
example : classify [0x43, 0x6f, 0x6e, 0x74, 0x65, 0x6e, 0x74, 0x2d, 0x4c, 0x65, 0x6e, 0x67, 0x74, 0x68,
    0x20, 0x3a, 0x35, 0x0a] = .unknown := by decide                 -- "Content-Length :5\n"
example : classify [0x43, 0x6f, 0x6e, 0x74, 0x65, 0x6e, 0x74, 0x2d, 0x4c, 0x65, 0x6e, 0x67, 0x74, 0x68,
    0x3a, 0x2d, 0x31, 0x0d, 0x0a] = .nonPositive (-1) := by decide  -- "Content-Length:-1\r\n"
example : classify [0x43, 0x6f, 0x6e, 0x74, 0x65, 0x6e, 0x74, 0x2d, 0x4c, 0x65, 0x6e, 0x67, 0x74, 0x68,
    0x3a, 0x31, 0x78, 0x0a] = .badLength := by decide               -- "Content-Length:1x\n"
example : classify [0xc2, 0xa0, 0xe2, 0x80, 0xa8, 0x0d, 0x0a] = .blank := by decide  -- NBSP, U+2028
example : classify [0x78, 0x0a] = .invalid := by decide

/-- Last Content-Length wins; the unknown header in between is ignored; the bytes after the
payload stay in the stream. `Content-Length:5\nX:y\nContent-Length:2\n\n{}[1]` -/
example : readFrame ([0x43, 0x6f, 0x6e, 0x74, 0x65, 0x6e, 0x74, 0x2d, 0x4c, 0x65, 0x6e, 0x67, 0x74, 0x68, 0x3a, 0x35, 0x0a]
    ++ [0x58, 0x3a, 0x79, 0x0a]
    ++ [0x43, 0x6f, 0x6e, 0x74, 0x65, 0x6e, 0x74, 0x2d, 0x4c, 0x65, 0x6e, 0x67, 0x74, 0x68, 0x3a, 0x32, 0x0a]
    ++ [0x0a] ++ [0x7b, 0x7d] ++ [0x5b, 0x31, 0x5d]) = .ok [0x7b, 0x7d] 41 [0x5b, 0x31, 0x5d] := by decide

/-- Malformed streams end in the corresponding error (or a clean EOF for the empty stream). -/
example : readFrame [] = .eof := by decide
example : readFrame [0x0d, 0x0a] = .err .missingLength 2 [] := by decide
example : readFrame [0x78] = .err .headerEOF 1 [] := by decide
example : readFrame (writeFrame [0x7b, 0x7d]).dropLast = .err .bodyShort 22 [] := by decide
example : readFrame ((writeFrame [0x7b, 0x7d]).take 21) = .err .bodyEOF 21 [] := by decide

/-- The hypotheses of the theorems above are satisfiable. -/
example : ∀ p ∈ [[0x7b, 0x7d], [0x5b, 0x31, 0x5d]], 0 < p.length ∧ p.length ≤ 2147483647 := by decide
example : (List.replicate 2147483648 (0 : UInt8)).length = 2147483648 := List.length_replicate
example : IsLine [0x58, 0x3a, 0x79, 0x0a] ∧ (classify [0x58, 0x3a, 0x79, 0x0a]).continues = true :=
  ⟨⟨[0x58, 0x3a, 0x79], rfl, by decide⟩, by decide⟩
example : IsLine [0x0d, 0x0a] ∧ (classify [0x0d, 0x0a]).continues = false :=
  ⟨⟨[0x0d], rfl, by decide⟩, by decide⟩
/-- `C38_header_rules` on `X:y⏎ Content-Length:7⏎ Content-Length:2⏎ ⏎`: done, length 2. -/
example : readHeader 9 ([0x58, 0x3a, 0x79, 0x0a] ++
      [0x43, 0x6f, 0x6e, 0x74, 0x65, 0x6e, 0x74, 0x2d, 0x4c, 0x65, 0x6e, 0x67, 0x74, 0x68, 0x3a, 0x37, 0x0a] ++
      [0x43, 0x6f, 0x6e, 0x74, 0x65, 0x6e, 0x74, 0x2d, 0x4c, 0x65, 0x6e, 0x67, 0x74, 0x68, 0x3a, 0x32, 0x0a] ++
      [0x0a] ++ [0x7b, 0x7d]) 0 0 = .done 39 2 [0x7b, 0x7d] := by decide

end GopModel.Frame
