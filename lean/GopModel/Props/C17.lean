/-
C17 — every AST node's span is exact and nested.

  "In every tree returned by the parser without errors, each node's Pos is the offset of its first
   token and End is the offset just after its last token, children lie within their parent's span
   in source order without overlapping, and re-parsing a node's source slice as an expression
   yields the same expression."

Model: `posBody` / `endBody` — the bodies of all Pos()/End() methods, REGENERATED from
ast/ast.go and ast/ast_gop.go on every run (Generated/Spans.lean), evaluated by
`SpanModel.evalBody` over a node's field values and its children's spans.
Specification: the hand-written layout of each kind (extract/c17_layout.txt → `layout`): the
node's own tokens and children in source order.

Proved here, for every kind with a layout (all 16 XGo-specific kinds except File, and 49 Go
kinds; `unspecified` lists the rest) and for all field values:
  Pos() = start of the first element present, End() = stop of the last element present
  (so, by the same statement for the children, first/last *token*), and when the elements are in
  source order every child lies within [Pos, End) and siblings do not overlap.
PARTIAL overall: (a) that the parser stores the offsets the layout speaks of (the hypothesis
`ordered`, and that layout tokens are real tokens) and the re-parse clause are checked on the
implementation by the harness (corpus + generated files), not proved; (b) kinds in
`unspecified` are covered by correspondence and the source oracle only.
-/
import GopModel.Lemmas.SpanLemmas
import GopModel.Generated.Spans
import GopModel.Model.SpanOpaque
namespace GopModel.C17
open GopModel.SpanModel GopModel.Generated.Walk GopModel.Generated.Spans

/- `opaqueSem` (the hand-written semantics of the fingerprinted `File.End`) and `tables` are in
Model/SpanOpaque.lean, shared with the driver. -/

/-! ## Table obligations — decided by the kernel on the regenerated bodies -/

def posCanon (k : Kind) : Bool :=
  match layout k with
  | some l => decide (posBody k = prune [] (canonPos l))
  | none => false

def endCanon (k : Kind) : Bool :=
  match layout k with
  | some l => decide (endBody k = prune [] (canonEnd l))
  | none => false

/-- The XGo-specific kinds (ast/ast_gop.go) other than File. -/
def xgoKinds : List Kind :=
  [.OverloadFuncDecl, .DomainTextLit, .BasicLit, .NumberUnitLit, .EnvExpr, .SliceLit, .MatrixLit,
   .ElemEllipsis, .ErrWrapExpr, .LambdaExpr, .LambdaExpr2, .RangeExpr, .ForPhrase,
   .ComprehensionExpr, .ForPhraseStmt, .SendStmt]

/-- Kinds without a layout: their Pos/End lie outside the canonical fragment. -/
def unspecified : List Kind := [.FieldList, .FuncType, .ValueSpec, .GenDecl, .File]

/-- Every kind is specified or explicitly listed as not. -/
theorem C17_layout_coverage :
    ∀ k ∈ allKinds, (k ∈ specified ∧ (layout k).isSome = true) ∨ (k ∈ unspecified ∧ layout k = none) := by
  decide

theorem C17_xgo_kinds_specified : ∀ k ∈ xgoKinds, k ∈ specified := by decide

/-- The Pos() method of every specified kind IS the canonical "start of the first element"
(up to `prune`: tests already decided by an enclosing identical test are dropped). -/
theorem C17_pos_bodies_canonical : ∀ k ∈ specified, posCanon k = true := by decide

/-- The End() method of every specified kind IS the canonical "stop of the last element". -/
theorem C17_end_bodies_canonical : ∀ k ∈ specified, endCanon k = true := by decide

/-! ## Exactness -/

/-- Pos is exact: for every specified kind, all field values and children, Pos() returns the
start of the first element of the layout that is present in the node. -/
theorem C17_pos_exact (k : Kind) (hk : k ∈ specified) (l : List (Item Fld)) (hl : layout k = some l)
    (vals : List (Fld × Nat)) (kids : List (Kid Kind Fld)) (hwf : layoutWF kids l = true) :
    evalBody opaqueSem vals kids (posBody k) = some (firstStart (elems vals kids l)) := by
  have h := C17_pos_bodies_canonical k hk
  simp only [posCanon, hl, decide_eq_true_eq] at h
  rw [h, prune_sound opaqueSem vals kids _ [] (by intro p hp; cases hp)]
  exact canonPos_sound opaqueSem vals kids l hwf

/-- End is exact: End() returns the stop of the last element present. -/
theorem C17_end_exact (k : Kind) (hk : k ∈ specified) (l : List (Item Fld)) (hl : layout k = some l)
    (vals : List (Fld × Nat)) (kids : List (Kid Kind Fld)) (hwf : layoutWF kids l = true) :
    evalBody opaqueSem vals kids (endBody k) = some (lastStop (elems vals kids l)) := by
  have h := C17_end_bodies_canonical k hk
  simp only [endCanon, hl, decide_eq_true_eq] at h
  rw [h, prune_sound opaqueSem vals kids _ [] (by intro p hp; cases hp)]
  exact canonEnd_sound opaqueSem vals kids l hwf

/-- Children (and own tokens) lie within the node's span: when the elements are in source
order, every element `e` satisfies Pos ≤ e.start ≤ e.stop ≤ End. -/
theorem C17_children_within (k : Kind) (hk : k ∈ specified) (l : List (Item Fld))
    (hl : layout k = some l) (vals : List (Fld × Nat)) (kids : List (Kid Kind Fld))
    (hwf : layoutWF kids l = true) (hord : ordered (elems vals kids l) = true) :
    ∃ p e, evalBody opaqueSem vals kids (posBody k) = some p ∧
      evalBody opaqueSem vals kids (endBody k) = some e ∧
      ∀ x ∈ elems vals kids l, p ≤ x.1 ∧ x.1 ≤ x.2 ∧ x.2 ≤ e := by
  refine ⟨_, _, C17_pos_exact k hk l hl vals kids hwf, C17_end_exact k hk l hl vals kids hwf, ?_⟩
  intro x hx
  have h1 := ordered_first_le _ hord x hx
  exact ⟨h1.1, h1.2, ordered_le_last _ hord x hx⟩

/-- Siblings are ordered and do not overlap (this is the meaning of the hypothesis; stated
for all pairs, not only neighbours). -/
theorem C17_children_ordered (l : List (Item Fld)) (vals : List (Fld × Nat))
    (kids : List (Kid Kind Fld)) (hord : ordered (elems vals kids l) = true) :
    (elems vals kids l).Pairwise fun a b => a.2 ≤ b.1 :=
  ordered_pairwise _ hord

/-- A node of a specified kind with at least one element has a non-empty span. -/
theorem C17_span_nonneg (k : Kind) (hk : k ∈ specified) (l : List (Item Fld))
    (hl : layout k = some l) (vals : List (Fld × Nat)) (kids : List (Kid Kind Fld))
    (hwf : layoutWF kids l = true) (hord : ordered (elems vals kids l) = true)
    (hne : elems vals kids l ≠ []) :
    ∃ p e, evalBody opaqueSem vals kids (posBody k) = some p ∧
      evalBody opaqueSem vals kids (endBody k) = some e ∧ p ≤ e := by
  obtain ⟨p, e, hp, he, hall⟩ := C17_children_within k hk l hl vals kids hwf hord
  refine ⟨p, e, hp, he, ?_⟩
  cases hx : elems vals kids l with
  | nil => exact absurd hx hne
  | cons x xs =>
    have := hall x (by rw [hx]; exact List.mem_cons_self)
    omega

/-! ## Non-vacuity: concrete nodes (kernel-evaluated with the regenerated bodies) -/

/-- `${name}` at offset 10: `$`=10 `{`=11 name=12..16 `}`=16. -/
def envKids : List (Kid Kind Fld) :=
  [⟨.Name, false, some .Ident, [(.NamePos, 12), (.Name, 4)], some 12, some 16⟩]
def envVals : List (Fld × Nat) := [(.TokPos, 10), (.Lbrace, 11), (.Rbrace, 16)]
example : layout .EnvExpr = some [.tok .TokPos 1, .tokOpt .Lbrace 1, .child .Name, .tokOpt .Rbrace 1] := rfl
example : layoutWF envKids [.tok .TokPos 1, .tokOpt .Lbrace 1, .child .Name, .tokOpt .Rbrace 1] = true := by decide
example : ordered (elems envVals envKids [.tok .TokPos 1, .tokOpt .Lbrace 1, .child .Name, .tokOpt .Rbrace 1]) = true := by decide
example : evalBody opaqueSem envVals envKids (posBody .EnvExpr) = some 10 := by decide
/-- the brace belongs to the node (the former `return p.Rbrace` gave 16) -/
example : evalBody opaqueSem envVals envKids (endBody .EnvExpr) = some 17 := by decide
/-- `$name`: no braces, End is the name's End -/
example : evalBody opaqueSem [(.TokPos, 10)] envKids (endBody .EnvExpr) = some 16 := by decide
/-- a whole tree: `[a, b]` = SliceLit(1)[Ident a (2), Ident b (3)] at offsets 5..11 -/
def sliceTree : SNode Kind Fld :=
  .mk .X .SliceLit 1 [(.Lbrack, 5), (.Rbrack, 10)]
    [.mk .Elts .Ident 2 [(.NamePos, 6), (.Name, 1)] [], .mk .Elts .Ident 3 [(.NamePos, 9), (.Name, 1)] []]
example : allSpans tables sliceTree = [(1, some 5, some 11), (2, some 6, some 7), (3, some 9, some 10)] := by
  decide
/-- the model keeps the panic of the real code: `ErrWrapExpr{X: nil}.Pos()` dereferences nil -/
example : evalBody opaqueSem [(.TokPos, 3)] ([] : List (Kid Kind Fld)) (posBody .ErrWrapExpr) = none := by
  decide

end GopModel.C17
