/-
C13 — the parser never panics or hangs and reports sorted errors.

FULL STATEMENT (properties.jsonl): for every byte sequence and every parse mode, parsing
terminates, returns an AST and an error list sorted by position, and never lets a panic escape;
a nil error means no Bad nodes.

What is PROVED here (kernel), on the models of Model/ParserErr.lean and the facts extracted by
the translator (Generated/ParserRecover.lean):
  * `C13_errors_sorted`      the list handed back is sorted and a permutation of what was recorded,
                             on the normal and on the bailout path;
  * `C13_error_limit`        without AllErrors at most limit+1 (= 11) entries are recorded by
                             `parser.error`; `C13_error_limit_parser_only` (total ≤ 11 when nothing
                             else writes the list); `C13_error_limit_total_fails`: the total is NOT
                             bounded when the scanner reports errors (witness, replayed on the code);
  * `C13_same_line_dedup`    no entry recorded by `parser.error` is on the line of its predecessor;
  * `C13_advance_progress`   every call of `advance` not at EOF decreases (remaining tokens,
                             stall budget) lexicographically; `C13_advance_stall_bound`: limit+2
                             consecutive calls consume a token or reach EOF;
  * `C13_bailout_never_escapes_partial` / `C13_nonbailout_panic_escapes` /
    `C13_errors_sorted_on_every_exit` / `C13_bailout_only_from_error`: the recover discipline.
NOT proved (search only — the fuzzing oracle of harness/cmd/c13): termination of the whole
parser, absence of panics that do not originate in the error handling (a non-bailout panic
escapes: that is modelled explicitly), "nil error ⇒ no Bad nodes".
-/
import GopModel.Model.ParserErr
namespace GopModel.ParserErr
open GopModel.Generated.ParserRecover

/-! ## sortedness -/

def Sorted : List Err → Prop
  | [] => True
  | [_] => True
  | a :: b :: r => a.le b = true ∧ Sorted (b :: r)

theorem le_iff (a b : Err) : a.le b = true ↔
    (a.line < b.line ∨ (a.line = b.line ∧ (a.col < b.col ∨ (a.col = b.col ∧ a.msg ≤ b.msg)))) := by
  simp [Err.le]

theorem le_total (a b : Err) (h : a.le b = false) : b.le a = true := by
  have h' : ¬ (a.le b = true) := by simp [h]
  rw [le_iff] at h'
  rw [le_iff]
  omega

theorem sorted_tail {a : Err} {l : List Err} (h : Sorted (a :: l)) : Sorted l := by
  cases l with
  | nil => trivial
  | cons b r => exact h.2

theorem insertErr_sorted (e : Err) : ∀ l : List Err, Sorted l → Sorted (insertErr e l)
  | [], _ => trivial
  | [x], _ => by
    simp only [insertErr]
    cases h : e.le x
    · simp only [Bool.false_eq_true, if_false]; exact ⟨le_total _ _ h, trivial⟩
    · simp only [if_true]; exact ⟨h, trivial⟩
  | x :: y :: r, hs => by
    have ih := insertErr_sorted e (y :: r) hs.2
    simp only [insertErr] at ih ⊢
    cases h : e.le x
    · simp only [Bool.false_eq_true, if_false]
      cases h2 : e.le y
      · simp only [h2, Bool.false_eq_true, if_false] at ih
        exact ⟨hs.1, ih⟩
      · simp only [if_true]
        exact ⟨le_total _ _ h, h2, hs.2⟩
    · simp only [if_true]; exact ⟨h, hs⟩

theorem sortErrs_sorted : ∀ l : List Err, Sorted (sortErrs l)
  | [] => trivial
  | x :: xs => insertErr_sorted x _ (sortErrs_sorted xs)

theorem insertErr_perm (e : Err) : ∀ l : List Err, (insertErr e l).Perm (e :: l)
  | [] => List.Perm.refl _
  | x :: xs => by
    simp only [insertErr]
    split
    · exact List.Perm.refl _
    · exact ((insertErr_perm e xs).cons x).trans (List.Perm.swap e x xs)

theorem sortErrs_perm : ∀ l : List Err, (sortErrs l).Perm l
  | [] => List.Perm.refl _
  | x :: xs => (insertErr_perm x _).trans ((sortErrs_perm xs).cons x)

/-- The list returned by an entry point is sorted by (line, column, message) and holds exactly
the recorded errors — whether parsing ran to its end or was cut short by the bailout. -/
theorem C13_errors_sorted (limit : Nat) (all : Bool) (evs : List Ev) :
    Sorted (result limit all evs) ∧ (result limit all evs).Perm (run limit all evs []).1 :=
  ⟨sortErrs_sorted _, sortErrs_perm _⟩

/-! ## the error limit -/

theorem ownCount_append (a b : List Err) : ownCount (a ++ b) = ownCount a + ownCount b := by
  simp [ownCount, List.filter_append]

theorem ownCount_le_length (a : List Err) : ownCount a ≤ a.length := by
  simp only [ownCount]; exact List.length_filter_le _ _

theorem ownCount_subErrs (es : List (Nat × Nat × Nat)) : ownCount (subErrs es) = 0 := by
  induction es with
  | nil => rfl
  | cons t ts ih =>
    simp only [ownCount, subErrs, List.map_cons, List.filter_cons] at ih ⊢
    simpa using ih

theorem run_ownCount (limit : Nat) : ∀ (evs : List Ev) (errs : List Err),
    ownCount errs ≤ limit + 1 → ownCount (run limit false evs errs).1 ≤ limit + 1 := by
  intro evs
  induction evs with
  | nil => intro errs h; simpa [run] using h
  | cons ev rest ih =>
    intro errs h
    cases ev with
    | parse l c m =>
      by_cases h1 : sameLineAsLast errs l = true
      · simp only [run, parserError, Bool.false_eq_true, if_false, h1, if_true]; exact ih errs h
      · by_cases h2 : errs.length > limit
        · simp only [run, parserError, Bool.false_eq_true, if_false, h1, h2, if_true]; exact h
        · simp only [run, parserError, Bool.false_eq_true, if_false, h1, h2]
          apply ih
          rw [ownCount_append]
          have := ownCount_le_length errs
          have h3 : ownCount [({ line := l, col := c, msg := m, origin := Origin.own } : Err)] = 1 := by
            simp [ownCount]
          omega
    | scan l c m =>
      simp only [run]
      apply ih
      rw [ownCount_append]
      simp [ownCount]
      simpa [ownCount] using h
    | sub es =>
      simp only [run]
      apply ih
      rw [ownCount_append, ownCount_subErrs]
      simpa using h

/-- Without AllErrors, `parser.error` records at most limit+1 entries (11 for the limit 10 of
the code: an entry is added while `n > 10` is false, i.e. up to n = 10 present). -/
theorem C13_error_limit (evs : List Ev) :
    ownCount (run errorLimit false evs []).1 ≤ errorLimit + 1 :=
  run_ownCount errorLimit evs [] (by simp [ownCount])

def onlyParse : List Ev → Bool
  | [] => true
  | .parse _ _ _ :: r => onlyParse r
  | _ :: _ => false

theorem run_length_parser_only (limit : Nat) : ∀ (evs : List Ev) (errs : List Err),
    onlyParse evs = true → errs.length ≤ limit + 1 →
    (run limit false evs errs).1.length ≤ limit + 1 := by
  intro evs
  induction evs with
  | nil => intro errs _ h; simpa [run] using h
  | cons ev rest ih =>
    intro errs hp h
    cases ev with
    | parse l c m =>
      simp only [onlyParse] at hp
      by_cases h1 : sameLineAsLast errs l = true
      · simp only [run, parserError, Bool.false_eq_true, if_false, h1, if_true]; exact ih errs hp h
      · by_cases h2 : errs.length > limit
        · simp only [run, parserError, Bool.false_eq_true, if_false, h1, h2, if_true]; exact h
        · simp only [run, parserError, Bool.false_eq_true, if_false, h1, h2]
          apply ih _ hp
          simp; omega
    | scan l c m => simp [onlyParse] at hp
    | sub es => simp [onlyParse] at hp

/-- If only the parser writes the list (no scanner errors, no sub-parser lists) the whole list
has at most limit+1 entries. -/
theorem C13_error_limit_parser_only (evs : List Ev) (h : onlyParse evs = true) :
    (result errorLimit false evs).length ≤ errorLimit + 1 := by
  have := run_length_parser_only errorLimit evs [] h (by simp)
  simpa [result, (sortErrs_perm _).length_eq] using this

def twelveScannerErrors : List Ev :=
  (List.range 12).map fun i => Ev.scan (i + 1) 1 0

/-- The unrestricted reading "¬AllErrors → at most 11 errors are returned" is FALSE for the code
as it is: errors reported by the scanner bypass `parser.error` (and a parser error on the line of
a scanner error is discarded before the limit is looked at).  Witness: twelve lines with one
illegal character each (replayed on the real parser by harness/cmd/c13, counter
`more_than_11_errors`). -/
theorem C13_error_limit_total_fails :
    ∃ evs, (result errorLimit false evs).length > errorLimit + 1 :=
  ⟨twelveScannerErrors, by decide⟩

/-! ## same-line discard -/

def AdjOK : List Err → Prop
  | [] => True
  | [_] => True
  | x :: y :: r => (y.origin = .own → x.line ≠ y.line) ∧ AdjOK (y :: r)

theorem adjOK_append_one (e : Err) : ∀ l : List Err, AdjOK l →
    (e.origin = .own → sameLineAsLast l e.line = false) → AdjOK (l ++ [e])
  | [], _, _ => trivial
  | [x], _, h => by
    refine ⟨?_, trivial⟩
    intro ho
    have := h ho
    simpa [sameLineAsLast] using this
  | x :: y :: r, hl, h => by
    refine ⟨hl.1, ?_⟩
    apply adjOK_append_one e (y :: r) hl.2
    intro ho
    have := h ho
    simpa [sameLineAsLast, List.getLast?_cons_cons] using this

theorem adjOK_append_foreign : ∀ (es l : List Err), AdjOK l →
    (∀ e ∈ es, e.origin ≠ .own) → AdjOK (l ++ es)
  | [], l, hl, _ => by simpa using hl
  | e :: es, l, hl, h => by
    have h1 : AdjOK (l ++ [e]) :=
      adjOK_append_one e l hl (fun ho => absurd ho (h e (by simp)))
    have := adjOK_append_foreign es (l ++ [e]) h1 (fun x hx => h x (by simp [hx]))
    simpa using this

theorem run_adjOK (limit : Nat) : ∀ (evs : List Ev) (errs : List Err),
    AdjOK errs → AdjOK (run limit false evs errs).1 := by
  intro evs
  induction evs with
  | nil => intro errs h; simpa [run] using h
  | cons ev rest ih =>
    intro errs h
    cases ev with
    | parse l c m =>
      by_cases h1 : sameLineAsLast errs l = true
      · simp only [run, parserError, Bool.false_eq_true, if_false, h1, if_true]; exact ih errs h
      · by_cases h2 : errs.length > limit
        · simp only [run, parserError, Bool.false_eq_true, if_false, h1, h2, if_true]; exact h
        · simp only [run, parserError, Bool.false_eq_true, if_false, h1, h2]
          apply ih
          apply adjOK_append_one _ _ h
          intro _
          simpa using h1
    | scan l c m =>
      simp only [run]
      apply ih
      exact adjOK_append_one _ _ h (fun ho => by simp at ho)
    | sub es =>
      simp only [run]
      apply ih
      apply adjOK_append_foreign _ _ h
      intro e he
      simp only [subErrs, List.mem_map] at he
      obtain ⟨t, _, rfl⟩ := he
      simp

/-- Without AllErrors no entry recorded by `parser.error` is on the same line as the entry
recorded immediately before it (the "likely a spurious error" discard). -/
theorem C13_same_line_dedup (limit : Nat) (evs : List Ev) :
    AdjOK (run limit false evs []).1 :=
  run_adjOK limit evs [] trivial

/-! ## progress of `advance` -/

theorem advanceLoop_length_le (limit : Nat) (to : String → Bool) :
    ∀ (l : List PTok) (sp sc : Nat), (advanceLoop limit to l sp sc).toks.length ≤ l.length := by
  intro l
  induction l with
  | nil => intro sp sc; simp [advanceLoop]
  | cons t rest ih =>
    intro sp sc
    simp only [advanceLoop]
    split
    · simp
    · split
      · split
        · simp
        · split
          · simp
          · have := ih sp sc; simp only [List.length_cons]; omega
      · have := ih sp sc; simp only [List.length_cons]; omega

theorem advance_length_le (limit : Nat) (to : String → Bool) (s : PS) :
    (advance limit to s).toks.length ≤ s.toks.length :=
  advanceLoop_length_le limit to s.toks s.syncPos s.syncCnt

/-- Every call of `advance` that does not start at EOF makes progress in the measure
(remaining tokens, stall budget): it consumes at least one token, or it leaves the tokens alone
and strictly lowers the number of further calls that may return without consuming. -/
theorem C13_advance_progress (limit : Nat) (to : String → Bool) (s : PS) (h : atEOF s = false) :
    (advance limit to s).toks.length < s.toks.length ∨
    ((advance limit to s).toks = s.toks ∧
      stallBudget limit (advance limit to s) < stallBudget limit s) := by
  obtain ⟨toks, sp, sc⟩ := s
  cases toks with
  | nil => simp [atEOF] at h
  | cons t rest =>
    simp only [atEOF] at h
    simp only [advance, advanceLoop, h, Bool.false_eq_true, if_false]
    split
    · split
      · rename_i hc
        right
        simp only [Bool.and_eq_true, beq_iff_eq, decide_eq_true_eq] at hc
        refine ⟨rfl, ?_⟩
        simp only [stallBudget]
        have : ¬ (t.pos > sp) := by omega
        simp only [this, if_false]
        omega
      · split
        · rename_i hgt
          right
          refine ⟨rfl, ?_⟩
          simp only [stallBudget, hgt, if_true]
          have : ¬ (t.pos > t.pos) := by omega
          simp only [this, if_false]
          omega
        · left
          have := advanceLoop_length_le limit to rest sp sc
          simp only [List.length_cons]; omega
    · left
      have := advanceLoop_length_le limit to rest sp sc
      simp only [List.length_cons]; omega

theorem advance_atEOF (limit : Nat) (to : String → Bool) (s : PS) (h : atEOF s = true) :
    advance limit to s = s := by
  obtain ⟨toks, sp, sc⟩ := s
  cases toks with
  | nil => simp [advance, advanceLoop]
  | cons t rest =>
    simp only [atEOF] at h
    simp [advance, advanceLoop, h]

theorem iterAdvance_atEOF (limit : Nat) (to : String → Bool) : ∀ (n : Nat) (s : PS),
    atEOF s = true → iterAdvance limit to n s = s
  | 0, _, _ => rfl
  | n + 1, s, h => by
    simp only [iterAdvance, advance_atEOF limit to s h]
    exact iterAdvance_atEOF limit to n s h

theorem iterAdvance_length_le (limit : Nat) (to : String → Bool) : ∀ (n : Nat) (s : PS),
    (iterAdvance limit to n s).toks.length ≤ s.toks.length
  | 0, _ => Nat.le_refl _
  | n + 1, s => by
    simp only [iterAdvance]
    exact Nat.le_trans (iterAdvance_length_le limit to n _) (advance_length_le limit to s)

theorem stall_bound_aux (limit : Nat) (to : String → Bool) : ∀ (n : Nat) (s : PS),
    stallBudget limit s < n →
    atEOF (iterAdvance limit to n s) = true ∨ (iterAdvance limit to n s).toks.length < s.toks.length
  | 0, _, h => by omega
  | n + 1, s, h => by
    cases he : atEOF s
    · rcases C13_advance_progress limit to s he with hlt | ⟨heq, hb⟩
      · right
        simp only [iterAdvance]
        have := iterAdvance_length_le limit to n (advance limit to s)
        omega
      · have hb' : stallBudget limit (advance limit to s) < n := by omega
        rcases stall_bound_aux limit to n (advance limit to s) hb' with h1 | h1
        · left; simpa [iterAdvance] using h1
        · right; simp only [iterAdvance]; rw [heq] at h1; exact h1
    · left
      rw [iterAdvance_atEOF limit to (n + 1) s he]; exact he

/-- In any state, limit+2 consecutive calls of `advance` (12 for the code's limit 10: one call
that records the position, ten that only count, one that must move) consume a token or are at
EOF: no error-recovery loop built on `advance` can spin at one position. -/
theorem C13_advance_stall_bound (limit : Nat) (to : String → Bool) (s : PS) :
    atEOF (iterAdvance limit to (limit + 2) s) = true ∨
    (iterAdvance limit to (limit + 2) s).toks.length < s.toks.length := by
  apply stall_bound_aux
  obtain ⟨toks, sp, sc⟩ := s
  cases toks with
  | nil => simp [stallBudget]
  | cons t r => simp only [stallBudget]; split <;> omega

/-! ## recover discipline (facts extracted from interface.go / parser.go) -/

inductive Exit where
  | normal
  | panicBailout
  | panicOther
  deriving Repr, DecidableEq

/-- What the deferred function of an entry with the extracted shape does on each kind of exit:
does a panic escape to the caller, and is the returned list the sorted one. -/
def entryBehaviour (f : EntryFacts) : Exit → Bool × Bool   -- (panic escapes, errors sorted)
  | .normal => (false, f.sortsErrors && f.sortIsLast)
  | .panicBailout => (!f.repanicsNonBailout, f.sortsErrors && f.sortIsLast)
  | .panicOther => (f.repanicsNonBailout, false)

/-- No panic that originates in the error handling (`bailout`) escapes an entry point.
PARTIAL: other panics do escape (next theorem); their absence is searched for, not proved. -/
theorem C13_bailout_never_escapes_partial :
    ∀ f ∈ entries, (entryBehaviour f .panicBailout).1 = false := by decide

/-- The explicit negative: any panic that is not a `bailout` is re-raised by the deferred
function of every entry point (this is how the `#`-at-EOF scanner defect, the `log.Panicln`
TODOs and the nil dereference in `tupleExpr.End` escaped `ParseFile` before they were fixed). -/
theorem C13_nonbailout_panic_escapes :
    ∀ f ∈ entries, (entryBehaviour f .panicOther).1 = true := by decide

/-- On every exit that returns (normal or bailout) the list is sorted last. -/
theorem C13_errors_sorted_on_every_exit :
    ∀ f ∈ entries, (entryBehaviour f .normal).2 = true ∧ (entryBehaviour f .panicBailout).2 = true := by
  decide

/-- `bailout` is raised only by `parser.error`. -/
theorem C13_bailout_only_from_error :
    ∀ s ∈ panicSites, s.2 = PanicArg.bailout → s.1 = "parser.error" := by decide

/-- The three entry points with a deferred recover are the ones the harness drives. -/
theorem C13_entries_known :
    entries.map (·.name) = ["ParseExprEx", "ParseExprFrom", "parseFile"] := by decide

/-! ## non-vacuity -/

-- 13 parser errors on 13 lines: the 12th call bails out with 11 recorded
example : (run errorLimit false ((List.range 13).map fun i => Ev.parse (i + 1) 1 0) []) =
    ((List.range 11).map (fun i => (⟨i + 1, 1, 0, .own⟩ : Err)), true) := by decide
-- same-line discard, and an out-of-order report that the final sort repairs
example : result errorLimit false [.parse 5 1 0, .parse 5 9 1, .scan 2 3 0, .parse 2 1 0, .sub [(1, 1, 0)]] =
    [⟨1, 1, 0, .sub⟩, ⟨2, 3, 0, .scanner⟩, ⟨5, 1, 0, .own⟩] := by decide
-- AllErrors keeps everything
example : (result errorLimit true [.parse 5 1 0, .parse 5 9 1]).length = 2 := by decide
-- advance: 12 calls at one position: 1 + 10 return without consuming, the 12th moves on
example : (iterAdvance advanceLimit (toSet 's') 11 ⟨[⟨"IF", 5⟩, ⟨"IDENT", 8⟩, ⟨"EOF", 9⟩], 0, 0⟩) =
    ⟨[⟨"IF", 5⟩, ⟨"IDENT", 8⟩, ⟨"EOF", 9⟩], 5, 10⟩ := by decide
example : (iterAdvance advanceLimit (toSet 's') 12 ⟨[⟨"IF", 5⟩, ⟨"IDENT", 8⟩, ⟨"EOF", 9⟩], 0, 0⟩) =
    ⟨[⟨"EOF", 9⟩], 5, 10⟩ := by decide
example : atEOF ⟨[⟨"IF", 5⟩, ⟨"EOF", 9⟩], 0, 0⟩ = false := by decide

end GopModel.ParserErr
