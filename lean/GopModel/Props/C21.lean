/-
C21 — formatting keeps every comment, in order.

FULL STATEMENT (properties.jsonl): for every valid XGo source, the output of format.Source
contains the text of every comment of the input exactly once and in the same relative order.

What is PROVED here (PARTIAL, hence `_partial`): the statement for the comment queue of the
printer (Model/CommentQueue.lean: nextComment / commentBefore / commentSizeBefore /
intersperseComments / flush / the final flush of fprint), for EVERY comment list and EVERY
sequence of print positions and impliedSemi values (monotone or not), under the explicit
hypotheses
  * every comment of the source is in `p.comments` (the parser's `file.Comments`; the
    node-comment path `setComment` is inert then — fact checked by `C21_sites_tie`),
  * comment offsets are `< infinity` (= 2^30) and print positions `≤ infinity`
    (both are needed: see `C21_offset_at_infinity_not_emitted`, `C21_beyond_infinity_no_progress`).
NOT proved (left to the search on the real formatter, checklib/props/c21.py): that writing a
comment (writeCommentPrefix / writeComment / writeCommentSuffix and the surrounding tokens)
leaves its text intact and separate from the neighbouring tokens, that the parser puts every
comment into `file.Comments`, and `ast.SortImports`.
-/
import GopModel.Model.CommentQueue
import GopModel.Generated.CommentSites
namespace GopModel.CommentQueue

variable {α : Type}

/-- Hypothesis: all comment offsets are below the printer's `infinity`. -/
def OffsetsOk (cs : List (Group α)) : Prop := ∀ g ∈ cs, g.offset < infinity

/-- Hypothesis: all print positions are at most `infinity`. -/
def OpsOk (ops : List Op) : Prop := ∀ op ∈ ops, op.next ≤ infinity

theorem allComments_cons (g : Group α) (cs : List (Group α)) :
    allComments (g :: cs) = g.cs ++ allComments cs := by
  simp [allComments]

/-- The queue invariant: what has been emitted, plus the current group (if any), plus the
groups not yet fetched, is the whole comment list — in this order. -/
structure Inv (cs : List (Group α)) (s : St α) : Prop where
  cindex_le : s.cindex ≤ cs.length
  cover :
    (s.commentOffset = infinity ∧ s.emitted = allComments cs) ∨
    (∃ g, s.comment = some g ∧ s.commentOffset = g.offset ∧ g.offset < infinity ∧
      s.emitted ++ g.cs ++ allComments (cs.drop s.cindex) = allComments cs)

/-- Iterations the loops may still need. -/
def need (cs : List (Group α)) (s : St α) : Nat :=
  if s.commentOffset = infinity then 0 else cs.length - s.cindex + 1

theorem need_le_fuelFor (cs : List (Group α)) (s : St α) : need cs s ≤ fuelFor cs := by
  unfold need fuelFor
  split <;> omega

theorem drop_cons_facts {cs rest : List (Group α)} {g : Group α} {n : Nat}
    (h : g :: rest = cs.drop n) : n < cs.length ∧ rest = cs.drop (n + 1) ∧ g ∈ cs := by
  have hlt : n < cs.length := by
    rcases Nat.lt_or_ge n cs.length with h1 | h1
    · exact h1
    · have : cs.drop n = [] := List.drop_eq_nil_of_le h1
      rw [this] at h; cases h
  refine ⟨hlt, ?_, ?_⟩
  · have h2 : (cs.drop n).drop 1 = cs.drop (n + 1) := by simp [List.drop_drop]
    rw [← h] at h2
    simpa using h2
  · have : g ∈ cs.drop n := by rw [← h]; simp
    exact List.mem_of_mem_drop this

/-- `nextComment` started in a state where the emitted comments and the unfetched groups
cover everything re-establishes the invariant, emits nothing, and never moves `cindex` back;
it moves it forward whenever it finds a group. -/
theorem nextCommentFrom_spec (cs : List (Group α)) (hoff : OffsetsOk cs) :
    ∀ (rest : List (Group α)) (s : St α), rest = cs.drop s.cindex → s.cindex ≤ cs.length →
      s.emitted ++ allComments rest = allComments cs →
      Inv cs (nextCommentFrom rest s) ∧ (nextCommentFrom rest s).emitted = s.emitted ∧
      s.cindex ≤ (nextCommentFrom rest s).cindex ∧
      ((nextCommentFrom rest s).commentOffset ≠ infinity → s.cindex < (nextCommentFrom rest s).cindex) := by
  intro rest
  induction rest with
  | nil =>
    intro s _ hle hcov
    simp only [nextCommentFrom]
    refine ⟨⟨hle, Or.inl ⟨rfl, ?_⟩⟩, ?_, ?_, ?_⟩
    · simpa [allComments] using hcov
    · trivial
    · exact Nat.le_refl _
    · intro h; exact absurd rfl h
  | cons g rest ih =>
    intro s hrest hle hcov
    obtain ⟨hlt, hrest', hmem⟩ := drop_cons_facts hrest
    simp only [nextCommentFrom]
    by_cases hemp : g.cs.isEmpty = true
    · simp only [hemp, if_true]
      have hnil : g.cs = [] := List.isEmpty_iff.mp hemp
      have := ih { s with cindex := s.cindex + 1 } hrest' (Nat.succ_le_of_lt hlt)
        (by simpa [allComments_cons, hnil] using hcov)
      obtain ⟨hinv, hem, hci, hlt'⟩ := this
      have hci' : s.cindex + 1 ≤ (nextCommentFrom rest { s with cindex := s.cindex + 1 }).cindex := hci
      refine ⟨hinv, hem, by omega, ?_⟩
      intro h
      have h2 : s.cindex + 1 < (nextCommentFrom rest { s with cindex := s.cindex + 1 }).cindex := hlt' h
      omega
    · simp only [hemp]
      refine ⟨⟨Nat.succ_le_of_lt hlt, Or.inr ⟨g, rfl, rfl, hoff g hmem, ?_⟩⟩, ?_, ?_, ?_⟩
      · show s.emitted ++ g.cs ++ allComments (cs.drop (s.cindex + 1)) = allComments cs
        rw [← hrest']
        simpa [allComments_cons, List.append_assoc] using hcov
      · trivial
      · show s.cindex ≤ s.cindex + 1
        omega
      · intro _
        show s.cindex < s.cindex + 1
        omega

theorem nextComment_spec (cs : List (Group α)) (hoff : OffsetsOk cs) (s : St α)
    (hle : s.cindex ≤ cs.length)
    (hcov : s.emitted ++ allComments (cs.drop s.cindex) = allComments cs) :
    Inv cs (nextComment cs s) ∧ (nextComment cs s).emitted = s.emitted ∧
    s.cindex ≤ (nextComment cs s).cindex ∧
    ((nextComment cs s).commentOffset ≠ infinity → s.cindex < (nextComment cs s).cindex) :=
  nextCommentFrom_spec cs hoff _ s rfl hle hcov

/-- The queue is started by `printNode` in a state satisfying the invariant. -/
theorem start_inv (cs : List (Group α)) (hoff : OffsetsOk cs) :
    Inv cs (start cs) ∧ (start cs).emitted = [] := by
  have := nextComment_spec cs hoff init (by simp [init]) (by simp [init])
  exact ⟨this.1, this.2.1⟩

theorem commentBefore_false_of_exhausted (s : St α) (next : Nat) (semi : Bool)
    (h : s.commentOffset = infinity) (hn : next ≤ infinity) : commentBefore s next semi = false := by
  unfold commentBefore
  have : ¬ s.commentOffset < next := by omega
  simp [this]

/-- The loop of `intersperseComments` terminates normally (no nil dereference, fuel
adequate), keeps the invariant, only appends to the emitted list, and stops in a state where
`commentBefore` is false. -/
theorem loop_ok (cs : List (Group α)) (hoff : OffsetsOk cs) (next : Nat) (semi : Bool)
    (hn : next ≤ infinity) :
    ∀ (fuel : Nat) (s : St α), Inv cs s → need cs s ≤ fuel →
      ∃ s', intersperseLoop cs next semi fuel s = .ok s' ∧ Inv cs s' ∧
        (∃ t, s'.emitted = s.emitted ++ t) ∧ commentBefore s' next semi = false := by
  intro fuel
  induction fuel with
  | zero =>
    intro s hinv hneed
    simp only [intersperseLoop]
    by_cases hcb : commentBefore s next semi = true
    · exfalso
      rcases hinv.cover with ⟨hinf, _⟩ | ⟨g, _, hoffs, hlt, _⟩
      · rw [commentBefore_false_of_exhausted s next semi hinf hn] at hcb; cases hcb
      · have : s.commentOffset ≠ infinity := by omega
        simp [need, this] at hneed
    · have hcb' : commentBefore s next semi = false := by simpa using hcb
      simp only [hcb', Bool.false_eq_true, if_false]
      exact ⟨s, rfl, hinv, ⟨[], by simp⟩, hcb'⟩
  | succ fuel ih =>
    intro s hinv hneed
    simp only [intersperseLoop]
    by_cases hcb : commentBefore s next semi = true
    · simp only [hcb, if_true]
      rcases hinv.cover with ⟨hinf, _⟩ | ⟨g, hcom, hoffs, hlt, hcov⟩
      · rw [commentBefore_false_of_exhausted s next semi hinf hn] at hcb; cases hcb
      · obtain ⟨ci, com, co, cn, em⟩ := s
        have hcom' : com = some g := hcom
        subst hcom'
        have hspec := nextComment_spec cs hoff ⟨ci, some g, co, cn, em ++ g.cs⟩
          hinv.cindex_le (by simpa [List.append_assoc] using hcov)
        obtain ⟨hinv2, hem2, hci2, hlt2⟩ := hspec
        have hoffs' : co = g.offset := hoffs
        have hne : co ≠ infinity := by omega
        have hneed2 : need cs (nextComment cs ⟨ci, some g, co, cn, em ++ g.cs⟩) ≤ fuel := by
          unfold need
          split
          · omega
          · rename_i hne2
            have h3 : ci < (nextComment cs ⟨ci, some g, co, cn, em ++ g.cs⟩).cindex := hlt2 hne2
            have hle2 := hinv2.cindex_le
            have hneed' : cs.length - ci + 1 ≤ fuel + 1 := by
              simpa [need, hne] using hneed
            omega
        obtain ⟨s', hrun, hinv', ⟨t, ht⟩, hstop⟩ := ih _ hinv2 hneed2
        refine ⟨s', hrun, hinv', ⟨g.cs ++ t, ?_⟩, hstop⟩
        rw [ht, hem2]
        show em ++ g.cs ++ t = em ++ (g.cs ++ t)
        simp [List.append_assoc]
    · have hcb' : commentBefore s next semi = false := by simpa using hcb
      simp only [hcb', Bool.false_eq_true, if_false]
      exact ⟨s, rfl, hinv, ⟨[], by simp⟩, hcb'⟩

theorem flush_ok (cs : List (Group α)) (hoff : OffsetsOk cs) (next : Nat) (semi : Bool)
    (hn : next ≤ infinity) (s : St α) (hinv : Inv cs s) :
    ∃ s', flush cs next semi s = .ok s' ∧ Inv cs s' ∧
      (∃ t, s'.emitted = s.emitted ++ t) ∧ commentBefore s' next semi = false := by
  unfold flush
  by_cases hcb : commentBefore s next semi = true
  · simp only [hcb, if_true]
    exact loop_ok cs hoff next semi hn _ s hinv (need_le_fuelFor cs s)
  · have hcb' : commentBefore s next semi = false := by simpa using hcb
    simp only [hcb', Bool.false_eq_true, if_false]
    exact ⟨s, rfl, hinv, ⟨[], by simp⟩, hcb'⟩

/-- Weak invariant (enough for termination of the look-ahead loop, which does not emit). -/
structure WInv (cs : List (Group α)) (s : St α) : Prop where
  cindex_le : s.cindex ≤ cs.length
  cur : s.commentOffset = infinity ∨
    (∃ g, s.comment = some g ∧ s.commentOffset = g.offset ∧ g.offset < infinity)

theorem Inv.weak {cs : List (Group α)} {s : St α} (h : Inv cs s) : WInv cs s :=
  ⟨h.cindex_le, h.cover.elim (fun a => Or.inl a.1)
    (fun ⟨g, a, b, c, _⟩ => Or.inr ⟨g, a, b, c⟩)⟩

theorem nextCommentFrom_weak (cs : List (Group α)) (hoff : OffsetsOk cs) :
    ∀ (rest : List (Group α)) (s : St α), rest = cs.drop s.cindex → s.cindex ≤ cs.length →
      WInv cs (nextCommentFrom rest s) ∧ s.cindex ≤ (nextCommentFrom rest s).cindex ∧
      ((nextCommentFrom rest s).commentOffset ≠ infinity → s.cindex < (nextCommentFrom rest s).cindex) := by
  intro rest
  induction rest with
  | nil =>
    intro s _ hle
    simp only [nextCommentFrom]
    exact ⟨⟨hle, Or.inl rfl⟩, Nat.le_refl _, fun h => absurd rfl h⟩
  | cons g rest ih =>
    intro s hrest hle
    obtain ⟨hlt, hrest', hmem⟩ := drop_cons_facts hrest
    simp only [nextCommentFrom]
    by_cases hemp : g.cs.isEmpty = true
    · simp only [hemp, if_true]
      obtain ⟨hinv, hci, hlt'⟩ := ih { s with cindex := s.cindex + 1 } hrest' (Nat.succ_le_of_lt hlt)
      have hci' : s.cindex + 1 ≤ (nextCommentFrom rest { s with cindex := s.cindex + 1 }).cindex := hci
      refine ⟨hinv, by omega, ?_⟩
      intro h
      have h2 : s.cindex + 1 < (nextCommentFrom rest { s with cindex := s.cindex + 1 }).cindex := hlt' h
      omega
    · simp only [hemp]
      refine ⟨⟨Nat.succ_le_of_lt hlt, Or.inr ⟨g, rfl, rfl, hoff g hmem⟩⟩, ?_, ?_⟩
      · show s.cindex ≤ s.cindex + 1
        omega
      · intro _
        show s.cindex < s.cindex + 1
        omega

/-- The look-ahead loop of `commentSizeBefore` always yields a size. -/
theorem sizeLoop_ok (cs : List (Group α)) (hoff : OffsetsOk cs) (len : α → Nat) (next : Nat)
    (semi : Bool) (hn : next ≤ infinity) :
    ∀ (fuel : Nat) (s : St α) (acc : Nat), WInv cs s → need cs s ≤ fuel →
      ∃ n, sizeLoop cs len next semi fuel s acc = .size n := by
  intro fuel
  induction fuel with
  | zero =>
    intro s acc hinv hneed
    simp only [sizeLoop]
    by_cases hcb : commentBefore s next semi = true
    · exfalso
      rcases hinv.cur with hinf | ⟨g, _, hoffs, hlt⟩
      · rw [commentBefore_false_of_exhausted s next semi hinf hn] at hcb; cases hcb
      · have : s.commentOffset ≠ infinity := by omega
        simp [need, this] at hneed
    · have hcb' : commentBefore s next semi = false := by simpa using hcb
      simp only [hcb', Bool.false_eq_true, if_false]
      exact ⟨acc, rfl⟩
  | succ fuel ih =>
    intro s acc hinv hneed
    simp only [sizeLoop]
    by_cases hcb : commentBefore s next semi = true
    · simp only [hcb, if_true]
      rcases hinv.cur with hinf | ⟨g, hcom, hoffs, hlt⟩
      · rw [commentBefore_false_of_exhausted s next semi hinf hn] at hcb; cases hcb
      · obtain ⟨ci, com, co, cn, em⟩ := s
        have hcom' : com = some g := hcom
        subst hcom'
        obtain ⟨hinv2, hci2, hlt2⟩ := nextCommentFrom_weak cs hoff _ ⟨ci, some g, co, cn, em⟩ rfl hinv.cindex_le
        have hoffs' : co = g.offset := hoffs
        have hne : co ≠ infinity := by omega
        have hneed2 : need cs (nextComment cs ⟨ci, some g, co, cn, em⟩) ≤ fuel := by
          unfold need
          split
          · omega
          · rename_i hne2
            have h3 : ci < (nextComment cs ⟨ci, some g, co, cn, em⟩).cindex := hlt2 hne2
            have hle2 : (nextComment cs ⟨ci, some g, co, cn, em⟩).cindex ≤ cs.length := hinv2.cindex_le
            have hneed' : cs.length - ci + 1 ≤ fuel + 1 := by
              simpa [need, hne] using hneed
            omega
        exact ih _ _ hinv2 hneed2
    · have hcb' : commentBefore s next semi = false := by simpa using hcb
      simp only [hcb', Bool.false_eq_true, if_false]
      exact ⟨acc, rfl⟩

theorem step_ok (cs : List (Group α)) (hoff : OffsetsOk cs) (op : Op) (hn : op.next ≤ infinity)
    (s : St α) (hinv : Inv cs s) :
    ∃ s', step cs op s = .ok s' ∧ Inv cs s' ∧ ∃ t, s'.emitted = s.emitted ++ t := by
  cases op with
  | print n b =>
    obtain ⟨s', h1, h2, h3, _⟩ := flush_ok cs hoff n b hn s hinv
    exact ⟨s', h1, h2, h3⟩
  | sizeBefore n b =>
    obtain ⟨z, hz⟩ := sizeLoop_ok cs hoff (fun _ => 1) n b hn (fuelFor cs) s 0 hinv.weak
      (need_le_fuelFor cs s)
    refine ⟨s, ?_, hinv, ⟨[], by simp⟩⟩
    simp [step, commentSizeBefore, hz]
  | before n b => exact ⟨s, rfl, hinv, ⟨[], by simp⟩⟩

theorem runOps_ok (cs : List (Group α)) (hoff : OffsetsOk cs) :
    ∀ (ops : List Op), OpsOk ops → ∀ (s : St α), Inv cs s →
      ∃ s', runOps cs ops s = .ok s' ∧ Inv cs s' ∧ ∃ t, s'.emitted = s.emitted ++ t := by
  intro ops
  induction ops with
  | nil => intro _ s hinv; exact ⟨s, rfl, hinv, ⟨[], by simp⟩⟩
  | cons op ops ih =>
    intro hops s hinv
    obtain ⟨s1, h1, hinv1, ⟨t1, ht1⟩⟩ := step_ok cs hoff op (hops op (by simp)) s hinv
    obtain ⟨s2, h2, hinv2, ⟨t2, ht2⟩⟩ := ih (fun o ho => hops o (by simp [ho])) s1 hinv1
    refine ⟨s2, ?_, hinv2, ⟨t1 ++ t2, ?_⟩⟩
    · simp [runOps, h1, h2]
    · rw [ht2, ht1]; simp [List.append_assoc]

theorem Inv.prefix {cs : List (Group α)} {s : St α} (h : Inv cs s) :
    s.emitted <+: allComments cs := by
  rcases h.cover with ⟨_, he⟩ | ⟨g, _, _, _, hcov⟩
  · rw [he]; exact List.prefix_refl _
  · exact ⟨g.cs ++ allComments (cs.drop s.cindex), by simpa [List.append_assoc] using hcov⟩

/-! ## Property theorems (C21) -/

/-- **Every comment is emitted, exactly once, in order.**  For ANY comment list and ANY
sequence of print / look-ahead / query operations (arbitrary positions, monotone or not,
arbitrary `impliedSemi`), `Fprint` = start, operations, final flush ends normally and the
sequence of emitted comments IS the input comment list. -/
theorem C21_comments_emitted_partial (cs : List (Group α)) (ops : List Op)
    (hoff : OffsetsOk cs) (hops : OpsOk ops) :
    ∃ s, printAll cs ops = .ok s ∧ s.emitted = allComments cs := by
  obtain ⟨hinv0, _⟩ := start_inv cs hoff
  obtain ⟨s1, h1, hinv1, _⟩ := runOps_ok cs hoff ops hops (start cs) hinv0
  obtain ⟨s2, h2, hinv2, _, hstop⟩ := flush_ok cs hoff infinity false (Nat.le_refl _) s1 hinv1
  refine ⟨s2, by simp [printAll, h1, finish, h2], ?_⟩
  rcases hinv2.cover with ⟨_, he⟩ | ⟨g, _, hoffs, hlt, _⟩
  · exact he
  · exfalso
    have : s2.commentOffset < infinity := by omega
    simp [commentBefore, this] at hstop

/-- **Prefix invariant**: at every moment (after any operations, before or after the final
flush) the emitted comments are a prefix of the input comment list. -/
theorem C21_prefix_invariant_partial (cs : List (Group α)) (ops : List Op)
    (hoff : OffsetsOk cs) (hops : OpsOk ops) :
    ∃ s, runOps cs ops (start cs) = .ok s ∧ s.emitted <+: allComments cs ∧
      ∃ k, s.emitted = (allComments cs).take k := by
  obtain ⟨hinv0, _⟩ := start_inv cs hoff
  obtain ⟨s1, h1, hinv1, _⟩ := runOps_ok cs hoff ops hops (start cs) hinv0
  refine ⟨s1, h1, hinv1.prefix, s1.emitted.length, ?_⟩
  exact (List.prefix_iff_eq_take.mp hinv1.prefix)

/-- **No comment is emitted twice**: if the input comments are pairwise distinct (e.g.
tagged with their index) the emitted list never contains a duplicate, at any moment, and
operations only ever append to it. -/
theorem C21_no_emit_twice_partial [DecidableEq α] (cs : List (Group α)) (ops more : List Op)
    (hoff : OffsetsOk cs) (hops : OpsOk ops) (hmore : OpsOk more)
    (hnodup : (allComments cs).Nodup) :
    ∃ s s', runOps cs ops (start cs) = .ok s ∧ runOps cs more s = .ok s' ∧
      s.emitted.Nodup ∧ s'.emitted.Nodup ∧ s.emitted <+: s'.emitted := by
  obtain ⟨hinv0, _⟩ := start_inv cs hoff
  obtain ⟨s1, h1, hinv1, _⟩ := runOps_ok cs hoff ops hops (start cs) hinv0
  obtain ⟨s2, h2, hinv2, ⟨t, ht⟩⟩ := runOps_ok cs hoff more hmore s1 hinv1
  exact ⟨s1, s2, h1, h2, hnodup.sublist hinv1.prefix.sublist, hnodup.sublist hinv2.prefix.sublist,
    ⟨t, ht.symm⟩⟩

/-- `commentSizeBefore` (look-ahead in funcBody) leaves the queue untouched. -/
theorem C21_commentSizeBefore_pure (cs : List (Group α)) (len : α → Nat) (next : Nat)
    (semi : Bool) (s : St α) : (commentSizeBefore cs len next semi s).2 = s := rfl

/-- **Tie to the source (T)**: the facts extracted from printer/*.go on this run satisfy
every hypothesis about the code that the model relies on (only `flush` →
`intersperseComments` → `writeComment` writes comments; `cindex` is only incremented, by
`nextComment`; the only reset is `setComment`, inert when the file has comments; the shapes of
nextComment / commentBefore (`<`) / the loops; `printNode` starts the queue; `fprint` ends
with `impliedSemi = false; flush(infinity)`; `infinity = 2^30`). Decided by the kernel. -/
theorem C21_sites_tie : Generated.CommentSites.sites.ok = true := by decide

/-! ## The hypotheses are necessary (the model has the real outcomes) -/

/-- A comment whose offset is `infinity` (a source ≥ 1 GiB) is never written. -/
theorem C21_offset_at_infinity_not_emitted :
    printAll [(⟨infinity, false, [7]⟩ : Group Nat)] [] =
      .ok ⟨1, some ⟨infinity, false, [7]⟩, infinity, false, []⟩ := by decide

/-- A print position beyond `infinity` after the queue is exhausted: the loop of
`intersperseComments` re-emits the stale `p.comment` for ever (here: until the fuel ends). -/
theorem C21_beyond_infinity_no_progress :
    printAll [(⟨5, false, [7]⟩ : Group Nat)] [.print 6 false, .print (infinity + 1) false] =
      .outOfFuel := by decide

/-- Before `printNode` has called `nextComment` the queue must not be flushed:
`p.comment` is nil and `commentOffset` is 0. -/
theorem C21_flush_before_start_nil :
    flush [(⟨5, false, [7]⟩ : Group Nat)] 3 false init = .nilDeref := by decide

/-! ## Non-vacuity: concrete instances of the hypotheses -/

def exQueue : List (Group Nat) :=
  [⟨10, true, [0, 1]⟩, ⟨40, false, [2]⟩, ⟨41, true, []⟩, ⟨90, true, [3]⟩]

def exOps : List Op :=
  [.print 5 false, .print 12 true, .before 60 false, .sizeBefore 95 false, .print 12 false,
   .print 45 true, .print 3 false, .print infinity true]

example : OffsetsOk exQueue := by
  intro g hg
  simp [exQueue] at hg
  rcases hg with rfl | rfl | rfl | rfl <;> decide

example : OpsOk exOps := by
  intro op hop
  simp [exOps] at hop
  rcases hop with rfl | rfl | rfl | rfl | rfl | rfl | rfl | rfl <;> decide

example : (allComments exQueue).Nodup := by decide

/-- the deferral by `impliedSemi && commentNewline`: after `.print 12 true` nothing is emitted,
after `.print 12 false` the first group is. -/
example : (match runOps exQueue [.print 5 false, .print 12 true] (start exQueue) with
    | .ok s => s.emitted | _ => [99]) = [] := by decide
example : (match runOps exQueue (exOps.take 5) (start exQueue) with
    | .ok s => s.emitted | _ => [99]) = [0, 1] := by decide
example : (match printAll exQueue exOps with
    | .ok s => s.emitted | _ => [99]) = [0, 1, 2, 3] := by decide

end GopModel.CommentQueue
