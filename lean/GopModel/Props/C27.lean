/-
C27 — grammar compilation never panics.

Model: `GopModel.Tpl.tplNew` = scan result ⟶ `parseFile` (tpl/parser) ⟶ `newEx` (tpl/cl/compile.go:
NewEx, compileExpr, tokenExpr, checkToken; tpl/token: Token.Len, ForEach over the regenerated
`tokens` table with the guards *as written*; tpl/matcher: every `First`, `CheckConflicts`,
`Var.First` with its recovered RecursiveError; `onConflictDefault` with the `Pos()` calls).
Every Go panic site on that path is an explicit outcome of the model (`NewRes.panic`), the model's
own recursion bound is `NewRes.oof`.

FULL statement proved (for every behaviour `U` of strconv.Unquote/UnquoteChar):
* `C27_new_total`: for every token list whose CHAR tokens carry both quotes (what the scanner
  guarantees whenever it reports no error; checked on every harness case), `tplNew` is a parse
  error, a compiler, ErrNoDocFound or an error list — never a panic, never out of fuel;
* `C27_compile_total`: `newEx` never panics on any tree the parser returns without error;
* `C27_fromfile_total`, `C27_newex_total`, `C27_relocate_total`: the same for `tpl.FromFile` with any source
  (readable or not) and for `tpl.NewEx` = `FromFile` + `Relocate`, over every kind of error `FromFile`
  returns; `Relocate`'s case list / panicking default are regenerated from tpl/tpl.go;
* `C27_token_len_total`, `C27_token_string_total`, `C27_check_token_total`: the token-table accessors
  are total for every token value / literal (these are the theorems the pre-fix guard
  `tok <= len(tokens)` falsifies: `tokens[158]` with 158 entries).
-/
import GopModel.Lemmas.TplCompile
namespace GopModel.Tpl

/-- `Token.Len` never indexes outside the table. -/
theorem C27_token_len_total (tok : Nat) : tokLen tok ≠ none := by
  obtain ⟨n, h⟩ := tokLen_total tok
  rw [h]; simp

/-- `Token.String` (used when the parser words "expected …" errors and by `%v` of operators) never
indexes outside the table. -/
theorem C27_token_string_total (tok : Nat) : tokStringOk tok = some () := tokStringOk_total tok

/-- `checkToken` (single byte, or `ForEach` over the operator range) never panics. -/
theorem C27_check_token_total (v : Bytes) : checkToken v ≠ none := by
  obtain ⟨r, h⟩ := checkToken_total v
  rw [h]; simp

/-- Every tree the parser returns without error compiles without a panic. -/
theorem C27_compile_total (U : Unq) (ts : List Tok) (r : ParseResult)
    (hchar : ∀ t ∈ ts, CharOk t) (hp : parseFile ts = some r) (herr : r.errs = []) :
    (newEx U r.rules).isBad = false :=
  newEx_safe U r.rules (parseFile_noerr_wf CharOk hp hchar herr)

/-- `tpl.New`: never a panic (and the model never runs out of fuel). -/
theorem C27_new_total (U : Unq) (ts : List Tok) (scanErrs : List Nat) (hchar : ∀ t ∈ ts, CharOk t) :
    (tplNew U ts scanErrs).isBad = false := by
  unfold tplNew
  obtain ⟨r, hr⟩ := parseFile_isSome ts
  rw [hr]
  simp only
  split
  · rfl
  · rename_i hne
    have herr : r.errs = [] := by
      cases he : r.errs with
      | nil => rfl
      | cons a b => exact absurd (Or.inr (by simp [he])) hne
    exact C27_compile_total U ts r hchar hr herr

/-- The outcome classes spelled out. -/
theorem C27_new_outcomes (U : Unq) (ts : List Tok) (scanErrs : List Nat) (hchar : ∀ t ∈ ts, CharOk t) :
    tplNew U ts scanErrs = .parseErr ∨ tplNew U ts scanErrs = .noDoc ∨
    (∃ cs, tplNew U ts scanErrs = .ok cs) ∨ (∃ es cs, tplNew U ts scanErrs = .errs es cs) := by
  have h := C27_new_total U ts scanErrs hchar
  cases hq : tplNew U ts scanErrs with
  | parseErr => exact Or.inl rfl
  | noDoc => exact Or.inr (Or.inl rfl)
  | ok cs => exact Or.inr (Or.inr (Or.inl ⟨cs, rfl⟩))
  | errs es cs => exact Or.inr (Or.inr (Or.inr ⟨es, cs, rfl⟩))
  | panic => rw [hq] at h; cases h
  | oof => rw [hq] at h; cases h

/-- `tpl.FromFile` (the common part of `tpl.New` and `tpl.NewEx`): never a panic, whatever the source
(readable or not) -/
theorem C27_fromfile_total (U : Unq) (srcOk : Bool) (ts : List Tok) (scanErrs : List Nat)
    (hchar : ∀ t ∈ ts, CharOk t) : (fromFile U srcOk ts scanErrs).isBad = false := by
  unfold fromFile
  cases srcOk with
  | false => rfl
  | true =>
    simp only [Bool.not_true, Bool.false_eq_true, if_false]
    obtain ⟨r, hr⟩ := parseFile_isSome ts
    rw [hr]
    simp only
    split
    · rfl
    · split
      · rfl
      · rename_i h1 h2
        have herr : r.errs = [] := by
          cases he : r.errs with
          | nil => rfl
          | cons a b => rw [he] at h2; simp at h2
        have hs := C27_compile_total U ts r hchar hr herr
        cases hq : newEx U r.rules with
        | ok cs => rfl
        | noDoc => rfl
        | errs es cs => rfl
        | parseErr => exact absurd hq (newEx_ne_parseErr U r.rules)
        | panic => rw [hq] at hs; cases hs
        | oof => rw [hq] at hs; cases hs

/-- `tpl.NewEx(src, filename, line, col)` = `FromFile` + `Relocate`: never a panic, for every kind of
error `FromFile` can return (*scanner.Error, scanner.ErrorList, *matcher.Error, errors.List, and the
position-less ones: cl.ErrNoDocFound, iox.ErrInvalidSource, I/O errors).  This is the theorem the
`default: panic("todo: …")` clause that tpl.Relocate had before commit "fix: tpl.Relocate …"
falsifies (`relocateDefaultPanics` is regenerated from tpl/tpl.go). -/
theorem C27_newex_total (U : Unq) (srcOk : Bool) (ts : List Tok) (scanErrs : List Nat)
    (hchar : ∀ t ∈ ts, CharOk t) : (tplNewEx U srcOk ts scanErrs).isBad = false := by
  unfold tplNewEx
  have h := C27_fromfile_total U srcOk ts scanErrs hchar
  cases hq : fromFile U srcOk ts scanErrs with
  | ok => rfl
  | err e =>
    obtain ⟨e', he⟩ := relocate_total (by rfl) e
    simp only [he]
    rfl
  | panic => rw [hq] at h; cases h
  | oof => rw [hq] at h; cases h

/-- `Relocate` alone: total on every error value. -/
theorem C27_relocate_total (e : GoErr) : relocate e ≠ none := by
  obtain ⟨e', he⟩ := relocate_total (by rfl) e
  rw [he]; simp

/-! Non-vacuity: the literal that used to panic, and malformed grammars, on concrete inputs. -/

/-- strconv on the literals below: `"\x9e"` ↦ the byte 0x9e, `'\x9e'` ↦ rune 0x9e -/
def U0 : Unq where
  char := fun l => if l = [39, 92, 120, 57, 101, 39] then .ok 0x9e false true else .err
  str := fun l => if l = [34, 92, 120, 57, 101, 34] then some [0x9e] else none

def tDoc : Tok := ⟨T.IDENT, [100, 111, 99]⟩
def tStr9e : Tok := ⟨T.STRING, [34, 92, 120, 57, 101, 34]⟩
def tChr9e : Tok := ⟨T.CHAR, [39, 92, 120, 57, 101, 39]⟩
def tSemi : Tok := ⟨T.SEMICOLON, [10]⟩

/-- `doc = "\x9e"`: token 0x9e = len(tokens) is outside the table ⇒ "invalid token", no document rule -/
example : tokLen 0x9e = some 0 := by decide +kernel
example : (tplNew U0 [tDoc, opTok T.ASSIGN, tStr9e, tSemi] []).isBad = false := by decide +kernel
example : (tplNew U0 [tDoc, opTok T.ASSIGN, tChr9e, tSemi] []).isBad = false := by decide +kernel
example : ∀ t ∈ [tDoc, opTok T.ASSIGN, tChr9e, tSemi], CharOk t := by
  intro t ht
  simp only [List.mem_cons, List.not_mem_nil, or_false] at ht
  rcases ht with rfl | rfl | rfl | rfl <;> simp +decide [CharOk]
/-- the model does have the panic outcome: a one-byte CHAR token (only produced together with a
scanner error, so `tpl.New` never compiles it) makes `compileLit` slice out of bounds -/
example : compileLit U0 T.CHAR [39] ⟨[], []⟩ = none := by decide +kernel
/-- the empty grammar: `FromFile` returns cl.ErrNoDocFound, which `NewEx` must hand through -/
example : (fromFile U0 true [] []).isBad = false ∧ (tplNewEx U0 true [] []).isBad = false := by
  constructor <;> decide +kernel
/-- and a nil operand (tree of `doc = * ;`, a parse error) panics in `compileExpr` -/
example : (compileExpr [] U0 (.unary T.MUL .nil) ⟨[], []⟩).isNone = true := by
  simp [compileExpr]

end GopModel.Tpl
