/-
C02 — XGo collection sugar evaluates like its documented Go expansion.

Model: M4 (Model/MiniGo.lean, MiniXGo.lean, Lower.lean).  `evalE c` is the ONE interpreter:
applied to `lowerX …` (a MiniGo term: only Go-core constructors, `C02_lower_isGo`) it is the Go
semantics of what the compiler emits (`evalGo`); applied to the sugar node it is the documented
meaning `Doc.*` (`specEval`).  Every theorem is an equality of functions of the environment and
the trace, so values, panics, early exits AND the order/number of probe events are all covered.

FULL STATEMENT (kept visible): "every generated program built from these constructs evaluates
like its documented Go expansion".  Proved here per construct, for all sub-expressions of the
source fragment (`Expr.src`: what the parser can produce — no closure nodes, no `_gop_…`/`_autoGo_…`
names, `?` only at statement level, see C03) and arbitrary nesting (`C02_expr_sugar`).  NOT proved:
that the real compiler emits `lowerX` (tie D, every run) and whole-program statements beyond the
listed statement forms — the property is therefore PARTIAL overall.
-/
import GopModel.Lemmas.MiniLower
namespace GopModel.Mini

/-! ## expression sugar, arbitrarily nested -/

/-- For every source expression (literals, comprehensions of all four kinds with any number of
for-phrases and filters, `!`, `?:`, command calls, nested in any way): the lowered expression under
the Go semantics equals the documented meaning — same value or panic, same trace. -/
theorem C02_expr_sugar (c : Ctx) (hc : CalleeOK c.callee) (e : Expr) (h : e.src = true) :
    evalE c (lowerX c.fname e) = evalE c e := lowerX_eq c hc e h

/-- `[elt for …]`: closure + `_gop_ret = append(_gop_ret, elt)` inside loops opened from the last
phrase to the first  =  the documented fold (last phrase outermost, filters, element order). -/
theorem C02_compr_list (c : Ctx) (hc : CalleeOK c.callee) (t : Ty) (elt : Expr) (fors : List Phrase)
    (h : (Expr.listCompr t elt fors).src = true) :
    evalE c (.closure [("_gop_ret", .list t)]
        (nestFors c.fname [.assign ["_gop_ret"] [.append (.var "_gop_ret") [lowerX c.fname elt] false]] fors
          ++ [.ret []]))
      = Doc.listCompr (evalE c elt) (evalPhrases c fors) := by
  have := lowerX_eq c hc _ h
  simpa only [lowerX, evalE] using this

/-- `{k: v for …}`: `_gop_ret = map[K]V{}` then `_gop_ret[k] = v` in the loops = documented map
(key evaluated before value; later entries win). -/
theorem C02_compr_map (c : Ctx) (hc : CalleeOK c.callee) (kt vt : Ty) (k v : Expr) (fors : List Phrase)
    (h : (Expr.mapCompr kt vt k v fors).src = true) :
    evalE c (.closure [("_gop_ret", .map kt vt)]
        (.assign ["_gop_ret"] [.mapLit kt vt []]
          :: (nestFors c.fname [.setIndex "_gop_ret" (lowerX c.fname k) (lowerX c.fname v)] fors ++ [.ret []])))
      = Doc.mapCompr (evalE c k) (evalE c v) (evalPhrases c fors) := by
  have := lowerX_eq c hc _ h
  simpa only [lowerX, evalE] using this

/-- `{elt for …}` (one- and two-value form): `return elt[, true]` inside the loops, zero value
(and `false`) after them = first match / zero value. -/
theorem C02_compr_select (c : Ctx) (hc : CalleeOK c.callee) (t : Ty) (elt : Expr) (fors : List Phrase)
    (two : Bool) (h : (Expr.selCompr t elt fors two).src = true) :
    evalE c (.closure (("_gop_ret", t) :: (if two then [("_gop_ok", Ty.bool)] else []))
        (nestFors c.fname [.ret (lowerX c.fname elt :: (if two then [.lit (.bool true)] else []))] fors
          ++ [.ret []]))
      = Doc.selCompr t (evalE c elt) (evalPhrases c fors) two := by
  have := lowerX_eq c hc _ h
  simpa only [lowerX, evalE] using this

/-- `{for …}`: `return true` inside the loops, `_gop_ok` (false) after them = "some entry passes". -/
theorem C02_compr_exists (c : Ctx) (hc : CalleeOK c.callee) (fors : List Phrase)
    (h : (Expr.existsCompr fors).src = true) :
    evalE c (.closure [("_gop_ok", .bool)] (nestFors c.fname [.ret [.lit (.bool true)]] fors ++ [.ret []]))
      = Doc.existsCompr (evalPhrases c fors) := by
  have := lowerX_eq c hc _ h
  simpa only [lowerX, evalE] using this

/-- Early exit of the documented iteration: once an entry yields a result, the remaining entries
`es2` are not evaluated (the outcome, trace included, does not depend on them).  With
`C02_compr_select`/`C02_compr_exists` the same holds for the lowered code. -/
theorem C02_exists_early_exit {σ β : Type} (step : Val → Val → σ → Sem (σ ⊕ β)) :
    ∀ (es1 : List (Val × Val)) (e : Val × Val) (es2 : List (Val × Val)) (s s' : σ) (b : β)
      (env env' env'' : Env) (tr tr' tr'' : Trace),
      Doc.iter step es1 s env tr = .ok (.inl s') env' tr' →
      step e.1 e.2 s' env' tr' = .ok (.inr b) env'' tr'' →
      Doc.iter step (es1 ++ e :: es2) s env tr = .ok (.inr b) env'' tr''
  | [], (k, v), es2, s, s', b, env, env', env'', tr, tr', tr'', h1, h2 => by
    simp only [Doc.iter, Res.ok.injEq, Sum.inl.injEq] at h1
    obtain ⟨rfl, rfl, rfl⟩ := h1
    simp only [List.nil_append, Doc.iter]
    simp only at h2
    rw [h2]; rfl
  | (k1, v1) :: es1, e, es2, s, s', b, env, env', env'', tr, tr', tr'', h1, h2 => by
    simp only [List.cons_append, Doc.iter] at h1 ⊢
    cases hr : step k1 v1 s env tr with
    | ok a e1 t1 =>
      rw [hr] at h1
      cases a with
      | inl s1 =>
        simp only [Res.bind_ok] at h1 ⊢
        exact C02_exists_early_exit step es1 e es2 s1 s' b e1 env' env'' t1 tr' tr'' h1 h2
      | inr b1 => simp at h1
    | panic v t => rw [hr] at h1; simp at h1
    | ret vs e1 t => rw [hr] at h1; simp at h1
    | timeout t => rw [hr] at h1; simp at h1
    | stuck => rw [hr] at h1; simp at h1

/-! ## literals and command-style calls -/

/-- `[e1, …, en]` → `[]T{e1, …, en}`: elements once, left to right. -/
theorem C02_list_lit (c : Ctx) (hc : CalleeOK c.callee) (t : Ty) (es : List Expr) (h : srcEs es = true) :
    evalE c (.listLit t (lowerXs c.fname es)) = evalE c (.sliceLit t es) := by
  have := lowerX_eq c hc (.sliceLit t es) (by simpa [Expr.src] using h)
  simpa only [lowerX] using this

/-- `{k1: v1, …}` → `map[K]V{k1: v1, …}`: k1, v1, k2, v2 … in this order, later keys win. -/
theorem C02_map_lit (c : Ctx) (hc : CalleeOK c.callee) (kt vt : Ty) (kvs : List KV) (h : srcKVs kvs = true) :
    evalE c (.mapLit kt vt (lowerKVs c.fname kvs)) = evalE c (.xmapLit kt vt kvs) := by
  have := lowerX_eq c hc (.xmapLit kt vt kvs) (by simpa [Expr.src] using h)
  simpa only [lowerX] using this

/-- `f a1, …, an` (command style) ≡ `f(a1, …, an)`. -/
theorem C02_cmd_call (c : Ctx) (hc : CalleeOK c.callee) (f : String) (args : List Expr)
    (h : srcEs args = true) :
    evalE c (lowerX c.fname (.cmdCall f args)) = evalE c (.call f args) := by
  have := lowerX_eq c hc (.cmdCall f args) (by simpa [Expr.src] using h)
  rw [this]; simp only [evalE]

/-! ## statement sugar -/

theorem rangeLoop_getD (key : Option String) (val : Option String) (body : Sem Unit) :
    ∀ es, rangeLoop (some (key.getD "_")) val body es = rangeLoop key val body es
  | [] => by funext env tr; simp [rangeLoop]
  | (k, v) :: es => by
    funext env tr
    simp only [rangeLoop, loopFrame_getD, rangeLoop_getD key val body es]

/-- `for k, v <- x [if c] { body }` → `for k, v := range x { [if c {] body [}] }` = the documented
loop: `x` once, entries in order, filter before the body, body only when it holds.  (`bodyL` is
the lowered body; its own correctness is a separate obligation, hence the hypothesis.) -/
theorem C02_forin_stmt (c : Ctx) (hc : CalleeOK c.callee) (key : Option String) (val : String)
    (x : Expr) (f : Filter) (body bodyL : List Stmt)
    (hx : x.src = true) (hf : f.src = true) (hb : evalSs c bodyL = evalSs c body) :
    evalS c (.forRange (some (key.getD "_")) (some val) (lowerX c.fname x)
        (filterWrap (lowerFilter c.fname f) bodyL))
      = evalS c (.forIn key val x f body) := by
  simp only [evalS, lowerX_eq c hc x hx, evalSs_filterWrap, lowerFilter_eq c hc f hf, hb]
  funext env tr
  cases f with
  | none =>
    simp only [evalFilter, filtSem, Doc.forIn, Doc.rangeSem, rangeLoop_getD]
  | cond e =>
    simp only [evalFilter, filtSem, Doc.forIn, Doc.rangeSem, rangeLoop_getD]; rfl
  | initCond y i e =>
    simp only [evalFilter, filtSem, Doc.forIn, Doc.rangeSem, rangeLoop_getD]; rfl

/-- `a <- v1, …, vn` / `a <- v...` → `a = append(a, v1, …, vn[...])`: operands once, left to
right; the slice variable is updated. -/
theorem C02_append_send (c : Ctx) (hc : CalleeOK c.callee) (a : String) (vs : List Expr) (sp : Bool)
    (ha : a ≠ "_") (h : srcEs vs = true) :
    evalS c (.assign [a] [.append (.var a) (lowerXs c.fname vs) sp]) = evalS c (.send a vs sp) := by
  funext env tr
  simp only [evalS, evalEs, evalE, lowerXs_eq c hc vs h, Doc.send]
  cases hg : env.get a with
  | none => simp
  | some av =>
    simp only [Res.bind_ok]
    cases hr : evalEs c vs env tr with
    | ok ws e1 t1 =>
      simp only [Res.bind_ok]
      cases hsp : spreadArgs sp ws with
      | none => simp
      | some xs =>
        cases hap : appendVals av xs with
        | none => simp [hap]
        | some r =>
          simp [hap, spreadVals, setAll, ha]
          cases e1.set a r <;> rfl
    | panic v t => simp
    | ret vs2 e1 t => simp
    | timeout t => simp
    | stuck => simp

/-! ## the lowered term is MiniGo -/

theorem isGoSs_append : ∀ (a b : List Stmt), isGoSs (a ++ b) = (isGoSs a && isGoSs b)
  | [], b => by simp [isGoSs]
  | s :: a, b => by simp [isGoSs, isGoSs_append a b, Bool.and_assoc]

mutual
theorem lowerX_isGo (fn : String) : ∀ (e : Expr), e.src = true → (lowerX fn e).isGo = true
  | .lit _, _ | .zero _, _ | .var _, _ => by simp [lowerX, Expr.isGo]
  | .bin _ a b, h => by
    simp only [Expr.src, Bool.and_eq_true] at h
    simp [lowerX, Expr.isGo, lowerX_isGo fn a h.1, lowerX_isGo fn b h.2]
  | .not a, h => by
    simp only [Expr.src] at h
    simp [lowerX, Expr.isGo, lowerX_isGo fn a h]
  | .listLit _ es, h | .sliceLit _ es, h => by
    simp only [Expr.src] at h
    simp [lowerX, Expr.isGo, lowerXs_isGo fn es h]
  | .mapLit _ _ kvs, h | .xmapLit _ _ kvs, h => by
    simp only [Expr.src] at h
    simp [lowerX, Expr.isGo, lowerKVs_isGo fn kvs h]
  | .index _ a i, h => by
    simp only [Expr.src, Bool.and_eq_true] at h
    simp [lowerX, Expr.isGo, lowerX_isGo fn a h.1, lowerX_isGo fn i h.2]
  | .len a, h => by
    simp only [Expr.src] at h
    simp [lowerX, Expr.isGo, lowerX_isGo fn a h]
  | .append a vs _, h => by
    simp only [Expr.src, Bool.and_eq_true] at h
    simp [lowerX, Expr.isGo, lowerX_isGo fn a h.1, lowerXs_isGo fn vs h.2]
  | .call _ args, h | .cmdCall _ args, h => by
    simp only [Expr.src] at h
    simp [lowerX, Expr.isGo, lowerXs_isGo fn args h]
  | .probe _ e, h | .newFrame e _ _, h | .neNil e, h => by
    simp only [Expr.src] at h
    simp [lowerX, Expr.isGo, lowerX_isGo fn e h]
  | .closure _ _, h => by simp [Expr.src] at h
  | .listCompr _ elt fors, h => by
    simp only [Expr.src, Bool.and_eq_true] at h
    have := nestFors_isGo fn fors h.2
      [.assign ["_gop_ret"] [.append (.var "_gop_ret") [lowerX fn elt] false]]
      (by simp [isGoSs, Stmt.isGo, isGoEs, Expr.isGo, lowerX_isGo fn elt h.1])
    simp [lowerX, Expr.isGo, isGoSs_append, this, isGoSs, Stmt.isGo, isGoEs]
  | .mapCompr _ _ k v fors, h => by
    simp only [Expr.src, Bool.and_eq_true] at h
    have := nestFors_isGo fn fors h.2 [.setIndex "_gop_ret" (lowerX fn k) (lowerX fn v)]
      (by simp [isGoSs, Stmt.isGo, lowerX_isGo fn k h.1.1, lowerX_isGo fn v h.1.2])
    simp [lowerX, Expr.isGo, isGoSs_append, this, isGoSs, Stmt.isGo, isGoEs, isGoKVs]
  | .selCompr _ elt fors two, h => by
    simp only [Expr.src, Bool.and_eq_true] at h
    have := nestFors_isGo fn fors h.2
      [.ret (lowerX fn elt :: (if two then [.lit (.bool true)] else []))]
      (by cases two <;> simp [isGoSs, Stmt.isGo, isGoEs, Expr.isGo, lowerX_isGo fn elt h.1])
    simp [lowerX, Expr.isGo, isGoSs_append, this, isGoSs, Stmt.isGo, isGoEs]
  | .existsCompr fors, h => by
    simp only [Expr.src] at h
    have := nestFors_isGo fn fors h [.ret [.lit (.bool true)]]
      (by simp [isGoSs, Stmt.isGo, isGoEs, Expr.isGo])
    simp [lowerX, Expr.isGo, isGoSs_append, this, isGoSs, Stmt.isGo, isGoEs]
  | .errBang _ _ args _, h => by
    simp only [Expr.src, Bool.and_eq_true] at h
    simp [lowerX, Expr.isGo, isGoSs, Stmt.isGo, isGoEs, ifErr, wrapFrameStmt, gopErr, Filter.isGo,
      lowerXs_isGo fn args h.2]
  | .errQ _ _ _ _, h => by simp [Expr.src] at h
  | .errDflt _ args _ d, h => by
    simp only [Expr.src, Bool.and_eq_true] at h
    simp [lowerX, Expr.isGo, isGoSs, Stmt.isGo, isGoEs, ifErr, gopErr, Filter.isGo,
      lowerXs_isGo fn args h.1, lowerX_isGo fn d h.2]
theorem lowerXs_isGo (fn : String) : ∀ (es : List Expr), srcEs es = true → isGoEs (lowerXs fn es) = true
  | [], _ => by simp [lowerXs, isGoEs]
  | e :: es, h => by
    simp only [srcEs, Bool.and_eq_true] at h
    simp [lowerXs, isGoEs, lowerX_isGo fn e h.1, lowerXs_isGo fn es h.2]
theorem lowerKVs_isGo (fn : String) : ∀ (kvs : List KV), srcKVs kvs = true → isGoKVs (lowerKVs fn kvs) = true
  | [], _ => by simp [lowerKVs, isGoKVs]
  | .mk k v :: r, h => by
    simp only [srcKVs, Bool.and_eq_true] at h
    simp [lowerKVs, isGoKVs, lowerX_isGo fn k h.1.1, lowerX_isGo fn v h.1.2, lowerKVs_isGo fn r h.2]
theorem nestFors_isGo (fn : String) : ∀ (fors : List Phrase), srcPhrases fors = true →
    ∀ (inner : List Stmt), isGoSs inner = true → isGoSs (nestFors fn inner fors) = true
  | [], _, inner, hi => by simpa [nestFors] using hi
  | .mk key val x f :: ps, h, inner, hi => by
    simp only [srcPhrases, Bool.and_eq_true] at h
    simp only [nestFors]
    apply nestFors_isGo fn ps h.2
    have hx := lowerX_isGo fn x h.1.1.2
    cases f with
    | none => simp [isGoSs, Stmt.isGo, hx, lowerFilter, filterWrap, hi]
    | cond e =>
      have he := lowerX_isGo fn e (by simpa [Filter.src] using h.1.2)
      simp [isGoSs, Stmt.isGo, hx, lowerFilter, filterWrap, hi, Filter.isGo, he]
    | initCond y i e =>
      have h3 : ((!isTmp y) && i.src && e.src) = true := by simpa [Filter.src] using h.1.2
      simp only [Bool.and_eq_true] at h3
      have hi' := lowerX_isGo fn i h3.1.2
      have he := lowerX_isGo fn e h3.2
      simp [isGoSs, Stmt.isGo, hx, lowerFilter, filterWrap, hi, Filter.isGo, he, hi']
end

/-- What `lowerX` produces for a source expression contains no sugar constructor: it is a MiniGo
term, so `evalE c (lowerX …)` only ever uses the Go-core cases of the interpreter (`evalGo`). -/
theorem C02_lower_isGo (fn : String) (e : Expr) (h : e.src = true) : (lowerX fn e).isGo = true :=
  lowerX_isGo fn e h

/-! ## compiling a node again gives the same code -/

/-- `lower` is a function of the syntax tree alone: compiling the same node once more (the real
compiler does so on the overload-retry path of `compileCallExpr`) yields the same Go term.  This
is trivially true of the MODEL; it is stated because C02 relies on the corresponding fact about
the COMPILER (it must not change its input tree while compiling), which no theorem here can
establish — the harness family `overload_arg` (sugar compiled 2–3 times as arguments of an
overloaded call) checks it on the real code. -/
def recompile (fn : String) (e : Expr) : Nat → Expr
  | 0 => lowerX fn e
  | k + 1 => (fun (_previous : Expr) => lowerX fn e) (recompile fn e k)

/-- (see above) the k-th recompilation of a node equals the first. -/
theorem C02_lower_pure (fn : String) (e : Expr) (k : Nat) : recompile fn e k = lowerX fn e := by
  cases k <;> rfl

/-! ## non-vacuity: concrete instances (docs.md `[[a, b] for a <- arr if a < b for b <- arr if b > 2]`) -/

def exArr : Expr := .sliceLit .int [.lit (.int 1), .lit (.int 2), .lit (.int 3), .lit (.int 4)]

/-- `[probe(1, a) + 10*b for a <- arr if a < b for b <- arr if probe(2, b > 2)]`. -/
def exCompr : Expr :=
  .listCompr .int (.bin .add (.probe 1 (.var "a")) (.bin .mul (.lit (.int 10)) (.var "b")))
    [.mk none "a" (.var "arr") (.cond (.bin .lt (.var "a") (.var "b"))),
     .mk none "b" (.var "arr") (.cond (.probe 2 (.bin .gt (.var "b") (.lit (.int 2)))))]

def exCtx : Ctx :=
  { callee := fun _ _ tr => .vals [.int 7, .nil] tr, loopFuel := 10, fname := "main.X", rtys := [] }

def exEnv : Env := [[("arr", .list [.int 1, .int 2, .int 3, .int 4])]]

example : exCompr.src = true := by decide
example : CalleeOK exCtx.callee := by
  intro f as tr vs tr' h v hv
  simp only [exCtx, CallRes.vals.injEq] at h
  obtain ⟨rfl, _⟩ := h
  simp only [List.mem_cons, List.not_mem_nil, or_false] at hv
  rcases hv with rfl | rfl <;> rfl

/-- The last phrase (`b`) is the outermost loop: filter events 2 for b = 1,2,3,4 interleave with
element events 1 for the pairs (1,3),(2,3) then (1,4),(2,4),(3,4). -/
example : (match evalE exCtx (lowerX "main.X" exCompr) exEnv [] with
    | .ok (.list vs) _ tr => (vs.map fun v => match v with | .int n => n | _ => 0,
                              tr.map fun e => (e.1, match e.2 with | .int n => n | .bool true => 1 | _ => 0))
    | _ => ([], [])) =
    ([31, 32, 41, 42, 43],
     [(2, 0), (2, 0), (2, 1), (1, 1), (1, 2), (2, 1), (1, 1), (1, 2), (1, 3)]) := by decide

example : (lowerX "main.X" exCompr).isGo = true := by decide

end GopModel.Mini
