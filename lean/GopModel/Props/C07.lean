/-
C07 — the compiler never crashes or hangs on parseable input.     PARTIAL (kernel only).

FULL STATEMENT (properties.jsonl): for every source the parser accepts (and every partial AST it
returns), compiling the package returns either a package or an error list within a bounded time,
without an unrecovered panic or runtime fatal error, and every reported error position lies inside
the compiled files; x/build BuildFile/BuildDir likewise return errors rather than panicking.

PROVED here, over the entry points and recover sites the translator extracts on every run
(Generated/ErrSinks.lean: cl.NewPackage, build.Context.BuildFile/BuildFSDir/BuildDir):
  * `C07_entry_never_panics_partial`  with `enableRecover = true` and no panic inside the
        NON-recovering deferred functions, no panic of the body leaves an entry point, and a
        panicking body always yields a non-nil returned error;
  * `C07_needs_enableRecover`, `C07_recorder_defer_unprotected`  the two hypotheses are needed
        (model witnesses: SetDisableRecover(true); `rec.Complete(p.Types.Scope())` is deferred
        OUTSIDE the recover and runs after it);
  * `C07_recover_sites_handle`  every `recover()` in cl and x/build reports, sets err or re-panics
        (none swallows a panic silently), and every re-panicking site is guarded by the same flag
        as the converting sites.
NOT PROVABLE in this model and left to the search machinery (harness/cmd/c07): that the bodies
terminate (wall-clock hangs), runtime fatal errors (stack overflow, out of memory, deadlock —
`recover` does not see them), panics in goroutines, and that error positions lie inside the
compiled files.
-/
import GopModel.Generated.ErrSinks
namespace GopModel.CompRecover
open GopModel.Generated.ErrSinks

def noMis : Nat → Bool := fun _ => false

/-- The four entry points are the ones named in the property. -/
theorem C07_entry_list :
    entries.map (·.name) = ["NewPackage", "Context.BuildFile", "Context.BuildFSDir", "Context.BuildDir"]
    ∧ ∀ e ∈ entries, e.namedErr = true := by decide

/-- **Entry points convert panics into returned errors** (PARTIAL: see the header).
For every extracted entry point, whatever the other flags, if `enableRecover` holds and the
non-recovering deferred functions do not panic, then (1) no panic leaves the entry point, whether
its body returns or panics, and (2) if the body panicked, the named result `err` is non-nil. -/
theorem C07_entry_never_panics_partial :
    ∀ e ∈ entries, ∀ (fl : Flags) (bodyPanics : Bool), fl.enableRecover = true →
      (runEntry fl noMis e bodyPanics).panicking = false ∧
      (bodyPanics = true → (runEntry fl noMis e bodyPanics).errSet = true) := by
  intro e he fl b hfl
  obtain ⟨er, rc, np⟩ := fl
  simp only at hfl
  subst hfl
  revert e
  cases rc <;> cases np <;> cases b <;> decide

/-- Without `enableRecover` (cl.SetDisableRecover(true)) a panic leaves cl.NewPackage: the
hypothesis of the theorem above is needed.  Model witness. -/
theorem C07_needs_enableRecover :
    ∃ e ∈ entries, (runEntry ⟨false, false, false⟩ noMis e true).panicking = true := by decide

/-- The deferred `rec.Complete(p.Types.Scope())` of NewPackage is registered BEFORE the recover, so
it runs AFTER it and outside its protection: if it panics, the panic leaves NewPackage even with
`enableRecover`.  Model witness; it was replayed on the real code (importer that cannot provide
"fmt" + a Recorder: p was nil) and that case is repaired by commit 6fb64d2 (`if p != nil`); any
other panic inside Recorder.Complete would still escape, hence the hypothesis `noMis`. -/
theorem C07_recorder_defer_unprotected :
    ∃ e ∈ entries, e.name = "NewPackage" ∧
      (runEntry ⟨true, true, false⟩ (fun i => i == 0) e true).panicking = true := by decide

/-- Every recover site handles the panic: it reports it, converts it into the returned error, or
re-panics after cleaning up; none drops it. -/
theorem C07_recover_sites_handle : ∀ s ∈ recoverSites, s.d.recovers = true ∧ s.d.handles = true := by
  decide

/-- A site that re-panics is only active under `enableRecover`, i.e. exactly when the enclosing
converting sites (compileStmt, loadSymbol, NewPackage) are active too. -/
theorem C07_rethrow_sites_guarded :
    ∀ s ∈ recoverSites, Act.rethrow ∈ s.d.acts → s.d.guard = Guard.enableRecover := by decide

/-- x/build's helpers always assign a freshly formatted (hence non-nil) error after a panic; two
of them format `err` instead of the recovered value (the text loses the panic value, the result is
still an error, never `(nil, nil)`). -/
theorem C07_build_helpers_set_err :
    ∀ e ∈ entries, e.file = "x/build/build.go" →
      e.defers.all (fun d => d.recovers && d.guard == Guard.always &&
        d.acts.all (fun a => a == Act.setErr .errorfRecovered || a == Act.setErr .errorfOther)) = true := by
  decide

/-! ### Non-vacuity -/
example : entries.length = 4 := by decide
example : 0 < recoverSites.length := by decide
/-- the body of BuildFile panics: recovered, err set -/
example : ∃ e ∈ entries, e.name = "Context.BuildFile" ∧
    (runEntry ⟨true, false, false⟩ noMis e true) = ⟨false, true, 0, true⟩ := by decide
/-- NewPackage's body panics: recovered, one report, err = errs.ToError() is non-nil -/
example : ∃ e ∈ entries, e.name = "NewPackage" ∧
    (runEntry ⟨true, true, false⟩ noMis e true) = ⟨false, true, 1, true⟩ := by decide
/-- body returns normally: nothing changes -/
example : ∃ e ∈ entries, e.name = "NewPackage" ∧
    (runEntry ⟨true, false, false⟩ noMis e false) = ⟨false, false, 0, false⟩ := by decide

end GopModel.CompRecover
