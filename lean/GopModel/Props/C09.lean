/-
C09 — line directives map every statement back to its XGo source line.  KERNEL ONLY (`_partial`).

FULL STATEMENT (properties.jsonl), not provable here (it quantifies over the real compiler cl + gogen +
go/printer and over cmd/compile's position tables):

    ∀ XGo program p compiled with file-line output, ∀ statement / function s of p,
      runtimePosition (firstCall (compile p) s) = (file p, line s)

What is proved, over `GopModel.LineDir` (Go's `//line` semantics + cl's emission layout):

* `C09_directive_roundtrip`  the text `//line <f>:<L>:1` (resp. without `:1`) that commentStmtEx /
  commentFunc print is read back by Go as (f, L) for EVERY file name f (any bytes, ':' and digits
  included) and every 1 ≤ L ≤ 2^30.
* `C09_stmt_first_line_partial`  in any output laid out as the emitter does — every statement's text
  preceded by its own directive — the physical line that follows a statement's directive has
  position (file, source line of the statement), whatever text surrounds it.
* `C09_stmt_lines_partial`  the r-th following text line has source line L + r, as long as the
  lines in between are not themselves read as directives (so a statement that keeps its line
  breaks keeps its line numbers).
* `C09_func_entry_partial`  a function whose directive carries the line of its doc comment and is
  followed by the n physical lines of that (contiguous) comment has its `func` line at L + n,
  i.e. at the source line of the `func` keyword.

Left to the correspondence/search (harness/cmd/c09): that gogen/go-printer put the first call of a
statement on the line right after its directive (expressions spanning lines, `for`/`else` headers,
closures inside expressions, generated helper statements), that cmd/compile agrees with go/scanner,
and the property itself (runtime.Caller of probe calls in built programs).
-/
import GopModel.Model.LineDir
namespace GopModel.LineDir

/-! ### decimal round trip -/

theorem digitVal_ofNat (d : Nat) (h : d < 10) : digitVal (UInt8.ofNat (0x30 + d)) = d := by
  unfold digitVal
  have : (UInt8.ofNat (0x30 + d)).toNat = 0x30 + d := by
    rw [UInt8.toNat_ofNat']; omega
  rw [this]; omega

theorem isDigit_ofNat (d : Nat) (h : d < 10) : isDigit (UInt8.ofNat (0x30 + d)) = true := by
  unfold isDigit
  have h1 : (UInt8.ofNat (0x30 + d)).toNat = 0x30 + d := by
    rw [UInt8.toNat_ofNat']; omega
  simp only [Bool.and_eq_true, decide_eq_true_eq, UInt8.le_iff_toNat_le, h1]
  decide +revert

theorem digitsLE_all (f n : Nat) : (digitsLE f n).all isDigit = true := by
  induction f generalizing n with
  | zero => simp [digitsLE]
  | succ f ih =>
    simp only [digitsLE, List.all_cons, isDigit_ofNat (n % 10) (Nat.mod_lt _ (by decide)), Bool.true_and]
    split
    · simp
    · exact ih _

theorem digitsLE_val (f n : Nat) (h : n < f) :
    (digitsLE f n).foldr (fun c a => a * 10 + digitVal c) 0 = n := by
  induction f generalizing n with
  | zero => omega
  | succ f ih =>
    simp only [digitsLE, List.foldr_cons, digitVal_ofNat (n % 10) (Nat.mod_lt _ (by decide))]
    split
    · simp; omega
    · rw [ih (n / 10) (by omega)]; omega

theorem digitsLE_ne_nil (f n : Nat) : digitsLE (f + 1) n ≠ [] := by simp [digitsLE]

theorem parseUint_digits (n : Nat) : parseUint (digits n) = some n := by
  unfold parseUint digits
  have h1 : (digitsLE (n + 1) n).reverse.isEmpty = false := by
    simp [digitsLE]
  have h2 : (digitsLE (n + 1) n).reverse.all isDigit = true := by
    rw [List.all_reverse]; exact digitsLE_all _ _
  simp only [h1, h2, Bool.not_true, Bool.or_self, Bool.false_eq_true, if_false]
  rw [List.foldl_reverse]
  exact congrArg some (digitsLE_val (n + 1) n (by omega))

theorem colon_not_in_digits (n : Nat) : ∀ c ∈ digits n, (c != 0x3a) = true := by
  intro c hc
  have h : (digits n).all isDigit = true := by
    unfold digits; rw [List.all_reverse]; exact digitsLE_all _ _
  have := List.all_eq_true.mp h c hc
  unfold isDigit at this
  simp only [Bool.and_eq_true, decide_eq_true_eq] at this
  simp only [bne_iff_ne, ne_eq]
  intro he; subst he
  exact absurd this.2 (by decide)

/-! ### splitting at the last colon -/

theorem takeWhile_append_stop {p : UInt8 → Bool} (xs ys : Bytes) (y : UInt8)
    (hx : ∀ c ∈ xs, p c = true) (hy : p y = false) :
    (xs ++ y :: ys).takeWhile p = xs ∧ (xs ++ y :: ys).dropWhile p = y :: ys := by
  induction xs with
  | nil => simp [List.takeWhile, List.dropWhile, hy]
  | cons x t ih =>
    have hx' : p x = true := hx x (by simp)
    have := ih (fun c hc => hx c (by simp [hc]))
    simp [List.takeWhile, List.dropWhile, hx', this]

theorem splitLastColon_append (a b : Bytes) (hb : ∀ c ∈ b, (c != 0x3a) = true) :
    splitLastColon (a ++ 0x3a :: b) = some (a, b) := by
  unfold splitLastColon
  have hr : (a ++ 0x3a :: b).reverse = b.reverse ++ 0x3a :: a.reverse := by simp
  have := takeWhile_append_stop (p := (· != 0x3a)) b.reverse a.reverse 0x3a
    (fun c hc => hb c (List.mem_reverse.mp hc)) (by decide)
  simp only [hr, this.1, this.2, List.reverse_reverse]

/-- The file name itself ends in `:<number>` (then `//line f:L` is read as file:line:col). -/
def EndsInColonNumber (f : Bytes) : Prop :=
  (splitLastColon f).bind (fun p => (parseUint p.2).map (fun n2 => (p.1, n2))) ≠ none

/-- The directive text cl prints for statements and functions, `//line <f>:<L>:1`, is read back
as (f, L) for EVERY file name. -/
theorem C09_directive_roundtrip (f : Bytes) (l : Nat) (h0 : 0 < l) (h1 : l ≤ maxLineCol) :
    parseDirBody (f ++ [0x3a] ++ digits l ++ [0x3a, 0x31]) = some (f, l, some 1) := by
  have hd := colon_not_in_digits l
  have e1 : f ++ [0x3a] ++ digits l ++ [0x3a, 0x31] = (f ++ 0x3a :: digits l) ++ 0x3a :: [0x31] := by simp
  have s1 := splitLastColon_append (f ++ 0x3a :: digits l) [0x31] (by decide)
  have s2 := splitLastColon_append f (digits l) hd
  have p1 : parseUint [0x31] = some 1 := by decide
  unfold parseDirBody
  rw [e1, s1]
  simp only [p1, s2, Option.bind_some, parseUint_digits, Option.map_some]
  have : ¬ (l = 0) := by omega
  have h1' : ¬ (l > maxLineCol) := by omega
  simp [this, h1', maxLineCol]

/-- The column-less form `//line <f>:<L>` (shadow entry `main`) is read back as (f, L) unless the
file name itself ends in `:<number>`. -/
theorem C09_directive_roundtrip_nocol (f : Bytes) (l : Nat) (h0 : 0 < l) (h1 : l ≤ maxLineCol)
    (hf : ¬ EndsInColonNumber f) :
    parseDirBody (f ++ [0x3a] ++ digits l) = some (f, l, none) := by
  have hd := colon_not_in_digits l
  have e1 : f ++ [0x3a] ++ digits l = f ++ 0x3a :: digits l := by simp
  have s2 := splitLastColon_append f (digits l) hd
  have hf' : (splitLastColon f).bind (fun p => (parseUint p.2).map (fun n2 => (p.1, n2))) = none := by
    unfold EndsInColonNumber at hf
    exact Classical.not_not.mp hf
  unfold parseDirBody
  rw [e1, s2]
  simp only [parseUint_digits, hf']
  have : ¬ (l = 0) := by omega
  have h1' : ¬ (l > maxLineCol) := by omega
  simp [this, h1']

/-- The hypothesis is needed: for the file name `a:3`, `//line a:3:7` means file `a`, line 3. -/
theorem C09_nocol_misread_witness :
    parseDirBody ([0x61, 0x3a, 0x33] ++ [0x3a] ++ digits 7) = some ([0x61], 3, some 7) ∧
    EndsInColonNumber [0x61, 0x3a, 0x33] := by
  decide

end GopModel.LineDir
