/-
C09 — line directives map every statement back to its XGo source line.  KERNEL ONLY (`_partial`).

FULL STATEMENT (properties.jsonl), not provable here (it quantifies over the real compiler cl + gogen +
go/printer and over cmd/compile's position tables):

    ∀ XGo program p compiled with file-line output, ∀ statement / function s of p,
      runtimePosition (firstCall (compile p) s) = (file p, line s)

What is proved, over `GopModel.LineDir` (Go's `//line` semantics + cl's emission layout):

* `C09_directive_roundtrip`  the text `//line <f>:<L>:1` (resp. without `:1`) that commentStmtEx /
  commentFunc print is read back by Go as (f, L) for EVERY file name f (any bytes, ':' and digits
  included) and every 1 ≤ L ≤ 2^30.
* `C09_stmt_first_line_partial`  in any output laid out as the emitter does — every statement's text
  preceded by its own directive — the physical line that follows a statement's directive has
  position (file, source line of the statement), whatever text surrounds it.
* `C09_stmt_lines_partial`  the r-th following text line has source line L + r, as long as the
  lines in between are not themselves read as directives (so a statement that keeps its line
  breaks keeps its line numbers).
* `C09_func_entry_partial`  a function whose directive carries the line of its doc comment and is
  followed by the n physical lines of that (contiguous) comment has its `func` line at L + n,
  i.e. at the source line of the `func` keyword.

Left to the correspondence/search (harness/cmd/c09): that gogen/go-printer put the first call of a
statement on the line right after its directive (expressions spanning lines, `for`/`else` headers,
closures inside expressions, generated helper statements), that cmd/compile agrees with go/scanner,
and the property itself (runtime.Caller of probe calls in built programs).
-/
import GopModel.Model.LineDir
namespace GopModel.LineDir

/-! ### decimal round trip -/

theorem digitVal_ofNat (d : Nat) (h : d < 10) : digitVal (UInt8.ofNat (0x30 + d)) = d := by
  unfold digitVal
  have : (UInt8.ofNat (0x30 + d)).toNat = 0x30 + d := by
    rw [UInt8.toNat_ofNat']; omega
  rw [this]; omega

theorem isDigit_ofNat (d : Nat) (h : d < 10) : isDigit (UInt8.ofNat (0x30 + d)) = true := by
  unfold isDigit
  have h1 : (UInt8.ofNat (0x30 + d)).toNat = 0x30 + d := by
    rw [UInt8.toNat_ofNat']; omega
  simp only [Bool.and_eq_true, decide_eq_true_eq, UInt8.le_iff_toNat_le, h1]
  decide +revert

theorem digitsLE_all (f n : Nat) : (digitsLE f n).all isDigit = true := by
  induction f generalizing n with
  | zero => simp [digitsLE]
  | succ f ih =>
    simp only [digitsLE, List.all_cons, isDigit_ofNat (n % 10) (Nat.mod_lt _ (by decide)), Bool.true_and]
    split
    · simp
    · exact ih _

theorem digitsLE_val (f n : Nat) (h : n < f) :
    (digitsLE f n).foldr (fun c a => a * 10 + digitVal c) 0 = n := by
  induction f generalizing n with
  | zero => omega
  | succ f ih =>
    simp only [digitsLE, List.foldr_cons, digitVal_ofNat (n % 10) (Nat.mod_lt _ (by decide))]
    split
    · simp; omega
    · rw [ih (n / 10) (by omega)]; omega

theorem digitsLE_ne_nil (f n : Nat) : digitsLE (f + 1) n ≠ [] := by simp [digitsLE]

theorem parseUint_digits (n : Nat) : parseUint (digits n) = some n := by
  unfold parseUint digits
  have h1 : (digitsLE (n + 1) n).reverse.isEmpty = false := by
    simp [digitsLE]
  have h2 : (digitsLE (n + 1) n).reverse.all isDigit = true := by
    rw [List.all_reverse]; exact digitsLE_all _ _
  simp only [h1, h2, Bool.not_true, Bool.or_self, Bool.false_eq_true, if_false]
  rw [List.foldl_reverse]
  exact congrArg some (digitsLE_val (n + 1) n (by omega))

theorem colon_not_in_digits (n : Nat) : ∀ c ∈ digits n, (c != 0x3a) = true := by
  intro c hc
  have h : (digits n).all isDigit = true := by
    unfold digits; rw [List.all_reverse]; exact digitsLE_all _ _
  have := List.all_eq_true.mp h c hc
  unfold isDigit at this
  simp only [Bool.and_eq_true, decide_eq_true_eq] at this
  simp only [bne_iff_ne, ne_eq]
  intro he; subst he
  exact absurd this.2 (by decide)

/-! ### splitting at the last colon -/

theorem takeWhile_append_stop {p : UInt8 → Bool} (xs ys : Bytes) (y : UInt8)
    (hx : ∀ c ∈ xs, p c = true) (hy : p y = false) :
    (xs ++ y :: ys).takeWhile p = xs ∧ (xs ++ y :: ys).dropWhile p = y :: ys := by
  induction xs with
  | nil => simp [List.takeWhile, List.dropWhile, hy]
  | cons x t ih =>
    have hx' : p x = true := hx x (by simp)
    have := ih (fun c hc => hx c (by simp [hc]))
    simp [List.takeWhile, List.dropWhile, hx', this]

theorem splitLastColon_append (a b : Bytes) (hb : ∀ c ∈ b, (c != 0x3a) = true) :
    splitLastColon (a ++ 0x3a :: b) = some (a, b) := by
  unfold splitLastColon
  have hr : (a ++ 0x3a :: b).reverse = b.reverse ++ 0x3a :: a.reverse := by simp
  have := takeWhile_append_stop (p := (· != 0x3a)) b.reverse a.reverse 0x3a
    (fun c hc => hb c (List.mem_reverse.mp hc)) (by decide)
  simp only [hr, this.1, this.2, List.reverse_reverse]

/-- The file name itself ends in `:<number>` (then `//line f:L` is read as file:line:col). -/
def EndsInColonNumber (f : Bytes) : Prop :=
  (splitLastColon f).bind (fun p => (parseUint p.2).map (fun n2 => (p.1, n2))) ≠ none

instance (f : Bytes) : Decidable (EndsInColonNumber f) := by
  unfold EndsInColonNumber; infer_instance

/-- The directive text cl prints for statements and functions, `//line <f>:<L>:1`, is read back
as (f, L) for EVERY file name. -/
theorem C09_directive_roundtrip (f : Bytes) (l : Nat) (h0 : 0 < l) (h1 : l ≤ maxLineCol) :
    parseDirBody (f ++ [0x3a] ++ digits l ++ [0x3a, 0x31]) = some (f, l, some 1) := by
  have hd := colon_not_in_digits l
  have e1 : f ++ [0x3a] ++ digits l ++ [0x3a, 0x31] = (f ++ 0x3a :: digits l) ++ 0x3a :: [0x31] := by simp
  have s1 := splitLastColon_append (f ++ 0x3a :: digits l) [0x31] (by decide)
  have s2 := splitLastColon_append f (digits l) hd
  have p1 : parseUint [0x31] = some 1 := by decide
  unfold parseDirBody
  rw [e1, s1]
  simp only [p1, s2, Option.bind_some, parseUint_digits, Option.map_some]
  have : ¬ (l = 0) := by omega
  have h1' : ¬ (l > maxLineCol) := by omega
  have hm : ¬ (maxLineCol = 0) := by decide
  simp [this, h1', hm]

/-- The column-less form `//line <f>:<L>` (shadow entry `main`) is read back as (f, L) unless the
file name itself ends in `:<number>`. -/
theorem C09_directive_roundtrip_nocol (f : Bytes) (l : Nat) (h0 : 0 < l) (h1 : l ≤ maxLineCol)
    (hf : ¬ EndsInColonNumber f) :
    parseDirBody (f ++ [0x3a] ++ digits l) = some (f, l, none) := by
  have hd := colon_not_in_digits l
  have e1 : f ++ [0x3a] ++ digits l = f ++ 0x3a :: digits l := by simp
  have s2 := splitLastColon_append f (digits l) hd
  have hf' : (splitLastColon f).bind (fun p => (parseUint p.2).map (fun n2 => (p.1, n2))) = none := by
    unfold EndsInColonNumber at hf
    exact Classical.not_not.mp hf
  unfold parseDirBody
  rw [e1, s2]
  simp only [parseUint_digits, hf']
  have : ¬ (l = 0) := by omega
  have h1' : ¬ (l > maxLineCol) := by omega
  simp [this, h1']

/-- The hypothesis is needed: for the file name `a:3`, `//line a:3:7` means file `a`, line 3. -/
theorem C09_nocol_misread_witness :
    parseDirBody ([0x61, 0x3a, 0x33] ++ [0x3a] ++ digits 7) = some ([0x61], 3, some 7) ∧
    EndsInColonNumber [0x61, 0x3a, 0x33] := by
  decide

/-! ### positions in an emitted layout -/

theorem scan_append (xs ys : List Line) (j : Nat) (cur : Cur) :
    scan (xs ++ ys) j cur = scan ys (j + xs.length) (scan xs j cur) := by
  induction xs generalizing j cur with
  | nil => simp [scan]
  | cons x t ih =>
    simp only [List.cons_append, scan, List.length_cons]
    rw [ih]
    congr 1
    omega

theorem scan_notDirective (xs : List Line) (j : Nat) (cur : Cur)
    (h : ∀ l ∈ xs, NotDirective l) : scan xs j cur = cur := by
  induction xs generalizing j cur with
  | nil => rfl
  | cons x t ih =>
    have hx : step cur j x = cur := by
      unfold step
      rw [h x (by simp) cur.file]
    simp only [scan, hx]
    exact ih _ _ (fun l hl => h l (by simp [hl]))

def dirLine (f : Bytes) (l : Nat) (c : Bool) : Line := ⟨render f l c, false⟩

theorem drop7_render (f : Bytes) (l : Nat) (c : Bool) :
    (render f l c).drop 7 = f ++ [0x3a] ++ digits l ++ (if c then [0x3a, 0x31] else []) := by
  unfold render linePrefix
  simp

/-- The last byte of a rendered directive is a digit, never '\r'. -/
theorem stripCR_render (f : Bytes) (l : Nat) (c : Bool) :
    stripCR ((render f l c).drop 7) = (render f l c).drop 7 := by
  rw [drop7_render]
  unfold stripCR
  cases c with
  | true =>
    simp only [if_true, List.reverse_append, List.reverse_cons, List.reverse_nil, List.nil_append,
      List.cons_append]
    split
    · rename_i r heq
      injection heq with h1 _
      exact absurd h1 (by decide)
    · rfl
  | false =>
    simp only [Bool.false_eq_true, if_false, List.append_nil, List.reverse_append]
    unfold digits
    rw [List.reverse_reverse]
    have : ∃ d t, digitsLE (l + 1) l = d :: t ∧ isDigit d = true := by
      have hall := digitsLE_all (l + 1) l
      cases hdl : digitsLE (l + 1) l with
      | nil => exact absurd hdl (digitsLE_ne_nil l l)
      | cons d t =>
        rw [hdl] at hall
        simp only [List.all_cons, Bool.and_eq_true] at hall
        exact ⟨d, t, rfl, hall.1⟩
    obtain ⟨d, t, hdt, hdig⟩ := this
    rw [hdt]
    simp only [List.cons_append]
    split
    · rename_i r heq
      injection heq with h1 _
      subst h1
      exact absurd hdig (by decide)
    · rfl

theorem dirOf_render (cur : FileRef) (f : Bytes) (l : Nat) (c : Bool) (hf : f ≠ [])
    (h0 : 0 < l) (h1 : l ≤ maxLineCol) (hc : c = false → ¬ EndsInColonNumber f) :
    dirOf cur (dirLine f l c) = some (.named f, l) := by
  have hp : linePrefix.isPrefixOf (render f l c) = true := by
    unfold render
    rw [List.append_assoc, List.append_assoc]
    exact List.isPrefixOf_iff_prefix.mpr (List.prefix_append _ _)
  have hfe : f.isEmpty = false := by
    cases f with
    | nil => exact absurd rfl hf
    | cons _ _ => rfl
  unfold dirOf dirLine
  simp only [Bool.false_eq_true, if_false, hp, if_true]
  rw [stripCR_render, drop7_render]
  cases c with
  | true =>
    have := C09_directive_roundtrip f l h0 h1
    simp only [if_true]
    rw [this]
    simp [hfe]
  | false =>
    have := C09_directive_roundtrip_nocol f l h0 h1 (hc rfl)
    simp only [Bool.false_eq_true, if_false, List.append_nil]
    rw [this]
    simp [hfe]

/-- File names the emitter may use: non-empty, and (for the column-less form) not ending in `:number`. -/
def GoodFile (f : Bytes) : Prop := f ≠ [] ∧ ¬ EndsInColonNumber f

def GoodLine (l : Nat) : Prop := 0 < l ∧ l ≤ maxLineCol

theorem flatten_layout (f : Bytes) (pre : List Item) (txt : List Line) (post : List Item)
    (L : Nat) (c : Bool) :
    flatten f (pre ++ [.dir L c] ++ txt.map .text ++ post) =
      flatten f pre ++ dirLine f L c :: (txt ++ flatten f post) := by
  unfold flatten dirLine
  simp [flattenItem, Function.comp_def]

theorem take_layout (A : List Line) (d : Line) (T B : List Line) (r : Nat) (hr : r ≤ T.length) :
    (A ++ d :: (T ++ B)).take (A.length + 1 + r) = A ++ d :: T.take r := by
  rw [List.take_append]
  have h1 : A.take (A.length + 1 + r) = A := List.take_of_length_le (by omega)
  have h2 : A.length + 1 + r - A.length = r + 1 := by omega
  rw [h1, h2, List.take_succ_cons, List.take_append_of_le_length hr]

/-- Core of both theorems: after the directive of a statement written at line `L`, the `r`-th
following physical line (r = 0: the line right after the directive) has position (file, L + r),
provided the `r` text lines in between are not read as directives. -/
theorem posFor_after_dir (f : Bytes) (A : List Line) (T B : List Line) (L : Nat) (c : Bool) (r : Nat)
    (hf : GoodFile f) (hL : GoodLine L) (hT : ∀ l ∈ T.take r, NotDirective l) (hr : r ≤ T.length) :
    posFor (A ++ dirLine f L c :: (T ++ B)) (A.length + 2 + r) = (.named f, L + r) := by
  unfold posFor
  have e : A.length + 2 + r - 1 = A.length + 1 + r := by omega
  rw [e, take_layout A _ T B r hr]
  have e2 : A ++ dirLine f L c :: T.take r = A ++ ([dirLine f L c] ++ T.take r) := by simp
  rw [e2, scan_append, scan_append, scan_notDirective (T.take r) _ _ hT]
  simp only [scan]
  unfold step
  rw [dirOf_render _ f L c hf.1 hL.1 hL.2 (fun _ => hf.2)]
  simp
  omega

/-- C09 kernel: in any layout where the `i`-th emitted line (0-based) is the directive of a
statement / function written at source line `L`, the physical line right after it has position
(file, L) — whatever precedes or follows. -/
theorem C09_stmt_first_line_partial (f : Bytes) (pre post : List Item) (L : Nat) (c : Bool)
    (hf : GoodFile f) (hL : GoodLine L) :
    posFor (flatten f (pre ++ [.dir L c] ++ post)) (pre.length + 2) = (.named f, L) := by
  have h := flatten_layout f pre [] post L c
  simp only [List.map_nil, List.append_nil, List.nil_append] at h
  rw [h]
  have hl : (flatten f pre).length = pre.length := by unfold flatten; simp
  have := posFor_after_dir f (flatten f pre) [] (flatten f post) L c 0 hf hL (by simp) (by simp)
  simpa [hl] using this

/-- …and the `r`-th following line has source line `L + r`, as long as the `r` lines in between are
program text that is not read as a directive (a statement that keeps its line breaks keeps its
line numbers). -/
theorem C09_stmt_lines_partial (f : Bytes) (pre : List Item) (txt : List Line) (post : List Item)
    (L : Nat) (c : Bool) (r : Nat) (hf : GoodFile f) (hL : GoodLine L)
    (htxt : ∀ l ∈ txt, NotDirective l) (hr : r ≤ txt.length) :
    posFor (flatten f (pre ++ [.dir L c] ++ txt.map .text ++ post)) (pre.length + 2 + r) =
      (.named f, L + r) := by
  rw [flatten_layout]
  have hl : (flatten f pre).length = pre.length := by unfold flatten; simp
  have := posFor_after_dir f (flatten f pre) txt (flatten f post) L c r hf hL
    (fun l hl => htxt l (List.mem_of_mem_take hl)) hr
  simpa [hl] using this

/-- Function entry: the directive carries the line `Ld` of the doc comment; the `n` physical lines
of the comment follow; the `func` line then has position `Ld + n`, which is the source line of the
`func` keyword when the doc comment is contiguous with the declaration (as Go requires of a doc
comment) and none of its lines is itself a `//line` directive. -/
theorem C09_func_entry_partial (f : Bytes) (pre : List Item) (doc : List Line) (funcLine : Line)
    (post : List Item) (Ld : Nat) (c : Bool) (hf : GoodFile f) (hL : GoodLine Ld)
    (hdoc : ∀ l ∈ doc, NotDirective l) :
    posFor (flatten f (pre ++ [.dir Ld c] ++ (doc ++ [funcLine]).map .text ++ post))
      (pre.length + 2 + doc.length) = (.named f, Ld + doc.length) := by
  have hfl : flatten f (pre ++ [.dir Ld c] ++ (doc ++ [funcLine]).map .text ++ post) =
      flatten f (pre ++ [.dir Ld c] ++ doc.map .text ++ (.text funcLine :: post)) := by
    unfold flatten; simp
  rw [hfl]
  exact C09_stmt_lines_partial f pre doc (.text funcLine :: post) Ld c doc.length hf hL hdoc (Nat.le_refl _)

/-! ### Non-vacuity -/

def asc (cs : List Char) : Line := ⟨cs.map (fun c => UInt8.ofNat c.toNat), false⟩
def exFile : Bytes := [0x61, 0x2e, 0x78, 0x67, 0x6f]   -- "a.xgo"

example : GoodFile exFile ∧ GoodLine 7 := ⟨⟨by decide, by decide⟩, by decide, by decide⟩
example : NotDirective (asc ['\t', 'm', 'a', 'r', 'k', '(', '1', ')']) := by intro cur; rfl
example : NotDirective (asc ['/', '/', ' ', 'd', 'o', 'c']) := by intro cur; rfl

def exLayout : List Item :=
  [.text (asc ['p', 'a', 'c', 'k', 'a', 'g', 'e', ' ', 'm']), .dir 3 true, .text (asc ['/', '/', ' ', 'd', 'o', 'c']),
   .text (asc ['f', 'u', 'n', 'c', ' ', 'f', '(', ')', ' ', '{']), .dir 9 true,
   .text (asc ['\t', 'm', 'a', 'r', 'k', '(', '1', ')']), .text (asc ['}'])]

/-- func directive (line of the doc comment), doc comment, `func` line → 4; statement → 9. -/
example : posFor (flatten exFile exLayout) 4 = (.named exFile, 4)
    ∧ posFor (flatten exFile exLayout) 6 = (.named exFile, 9)
    ∧ posFor (flatten exFile exLayout) 1 = (.phys, 1) := by
  decide

end GopModel.LineDir
