/-
C41 — closing a fake connection unblocks pending I/O.
Invariants of the transition system M6 instantiated with the thread programs regenerated from
/repo/x/fakenet/conn.go (Generated/SyncFakenet.lean): one feeder with its `run` goroutine and ANY
number of concurrent `do` (Read/Write) and `close` calls started at any time.

The semantics of `select`/`close` (DESIGN Appendix B: a goroutine parked in a select is claimed
atomically by `close`) is the trusted part of the model; it is validated only by the stress runs
of the harness.
-/
import GopModel.Lemmas.FakenetBasic
import GopModel.Lemmas.FakenetInv
import GopModel.Lemmas.FakenetTrace
namespace GopModel.C41
open GopModel.TS GopModel.Generated.SyncFakenet

theorem reach_inv {root : List UInt8} {s : State} (h : Reachable sys root s) : Basic s ∧ FInv s := by
  refine Reachable.induct (fun s => Basic s ∧ FInv s) ?_ ?_ h
  · refine ⟨⟨rfl, ?_, ?_, ?_, ?_, ?_, ?_, ?_, ?_, ?_, ?_, ?_⟩, ⟨?_, ?_, ?_, ?_, ?_, ?_, ?_, ?_⟩⟩ <;>
      simp [Sys.init, sys, FnDef.mkThread, runFn, regInit, Valid, holds, phase, RetOk, XferBeforeClose] <;>
      intro i t hi <;> rcases i with _ | i <;> simp at hi <;> subst hi <;> simp
  · intro s s' l ⟨B, I⟩ hn
    exact ⟨basic_step B hn, finv_step B I hn⟩

/-- the trace of a reachable state follows the request/response cycle -/
theorem phase_some {root : List UInt8} {s : State} (hr : Reachable sys root s) : ∃ φ, phase s.trace = some φ := by
  obtain ⟨B, I⟩ := reach_inv hr
  obtain ⟨r, hr0, hfn⟩ := B.run0
  have hv := B.valid 0 r hr0
  rcases hv with h | h | h
  · omega
  · have : r.pc = 0 ∨ r.pc = 1 ∨ r.pc = 2 ∨ r.pc = 3 ∨ r.pc = 4 := by omega
    rcases this with e | e | e | e | e
    · exact ⟨_, I.run01 r hr0 (Or.inl e)⟩
    · exact ⟨_, I.run01 r hr0 (Or.inr e)⟩
    · have := I.run2 r hr0 e
      cases hp : phase s.trace with
      | none => simp [hp, gotBuf] at this
      | some φ => exact ⟨φ, rfl⟩
    · have := I.run34 r hr0 (Or.inl e)
      cases hp : phase s.trace with
      | none => simp [hp, calledRes] at this
      | some φ => exact ⟨φ, rfl⟩
    · have := I.run34 r hr0 (Or.inr e)
      cases hp : phase s.trace with
      | none => simp [hp, calledRes] at this
      | some φ => exact ⟨φ, rfl⟩
  · omega

/-! ## Property theorems (C41)

`s.trace` lists the ghost events newest first: in `post ++ e :: pre`, `pre` happened before `e`.
Channel ids: 0 = `f.input`, 1 = `f.result`, 2 = `f.done`.  `Ev.xfer ch sj rj x`: value `x` went
from thread `sj` to thread `rj` on channel `ch`; `Ev.call i b r`: `f.source(b)` returned `r`;
`Ev.closed 2`: `close(f.done)`; `Ev.ret j 0 o`: the `do` call (Read/Write) of thread `j` returned `o`
(`.eof` = `0, io.EOF`). -/

/-- No Go runtime panic: `f.done` is closed at most once, nothing is sent on a closed channel, the
mutex is never unlocked while free. -/
theorem C41_no_panic {root : List UInt8} {s : State} (hr : Reachable sys root s) : s.panic = false :=
  (reach_inv hr).1.noPanic

/-- Data arrives in order and unmodified: the sequence of buffers passed to the underlying
Read/Write is the sequence of buffers handed over by the `do` calls, in the same order, with at
most the last one still outstanding. -/
theorem C41_data_in_order {root : List UInt8} {s : State} (hr : Reachable sys root s) :
    calls s.trace = inputs s.trace ∨ ∃ b, inputs s.trace = calls s.trace ++ [b] := by
  obtain ⟨φ, hφ⟩ := phase_some hr
  have := inputs_calls hφ
  cases φ with
  | idle => left; exact this.1 rfl
  | got j b => right; exact ⟨b, this.2.1 j b rfl⟩
  | called j b r => left; exact this.2.2 j b r rfl

/-- Results are not crossed: when thread `j` receives `r` on the result channel, `r` is the result
of the most recent source call, that call was made on the buffer `b` most recently handed over,
and `b` was handed over by `j` itself — with no other request/response event in between. -/
theorem C41_result_not_crossed {root : List UInt8} {s : State} (hr : Reachable sys root s)
    {post pre : List Ev} {sj j : Nat} {r : Val} (ht : s.trace = post ++ Ev.xfer 1 sj j r :: pre) :
    ∃ b mid1 mid2 pre' i q, pre = mid1 ++ Ev.call i b r :: (mid2 ++ Ev.xfer 0 j q b :: pre') ∧
      (∀ e ∈ mid1, ¬Relevant e) ∧ (∀ e ∈ mid2, ¬Relevant e) := by
  obtain ⟨φ, hφ⟩ := phase_some hr
  rw [ht] at hφ
  obtain ⟨ψ, hψ⟩ := phase_append_some hφ
  rcases phase_cons_cases hψ with ⟨_, _, _, he, _⟩ | ⟨sj', j', b, r', he, hp, _⟩ | ⟨_, _, _, _, he, _⟩ | ⟨_, h1, _⟩
  · cases he
  · cases he
    obtain ⟨m1, m2, pre', i, q, e, h1, h2⟩ := called_shape pre hp
    exact ⟨b, m1, m2, pre', i, q, e, h1, h2⟩
  · cases he
  · exact absurd rfl (h1 1 sj j r rfl).2

/-- What a `do` call returns, when it is not EOF, is the value it received on the result channel. -/
theorem C41_do_returns_received {root : List UInt8} {s : State} (hr : Reachable sys root s)
    {post pre : List Ev} {j : Nat} {v : Val} (ht : s.trace = post ++ Ev.ret j 0 (.val v) :: pre) :
    lastRecv j pre = some v := by
  have hw := (reach_inv hr).2.retOk
  rw [ht] at hw
  have := retOk_append hw
  simp only [RetOk] at this
  exact this.1 trivial v rfl

/-- After `close(f.done)` no value is transferred on any channel any more. -/
theorem C41_no_transfer_after_close {root : List UInt8} {s : State} (hr : Reachable sys root s)
    {post pre : List Ev} {ch sj rj : Nat} {x : Val} (ht : s.trace = post ++ Ev.xfer ch sj rj x :: pre)
    (ch' : Nat) : Ev.closed ch' ∉ pre := by
  have hw := (reach_inv hr).2.xbc
  rw [ht] at hw
  have := xbc_append hw
  simp only [XferBeforeClose] at this
  exact this.1 ch'

/-- Once `f.done` is closed nobody is parked in a `select`: every pending Read/Write and the feeder
goroutine have been woken (claimed by the close). -/
theorem C41_nobody_parked_after_close {root : List UInt8} {s : State} (hr : Reachable sys root s)
    (hc : 2 ∈ s.closed) {i : Nat} {t : Thread} (ht : s.threads[i]? = some t) : t.st ≠ .parked :=
  (reach_inv hr).1.awake hc i t ht

/-- Read/Write after (or pending at) Close returns EOF: once `f.done` is closed, a `do` call that
has not yet received its result (it is at one of its two selects — in particular every call
started after the close, which starts at pc 0) can only step to `return 0, io.EOF`. -/
theorem C41_do_after_close_eof {root : List UInt8} {s s' : State} (hr : Reachable sys root s)
    (hc : 2 ∈ s.closed) {j k p : Nat} {v : Val} {t : Thread} (ht : s.threads[j]? = some t)
    (hfn : t.fn = 0) (hpc : t.pc = 0 ∨ t.pc = 2) (hn : next sys s (.thread j k p v) = some s') :
    ∃ t', s'.threads[j]? = some t' ∧ t'.st = .run ∧ t'.fn = 0 ∧
      ((t.pc = 0 ∧ t'.pc = 1) ∨ (t.pc = 2 ∧ t'.pc = 4)) ∧
      instrAt sys t' = some (.ret .eof) := by
  obtain ⟨B, I⟩ := reach_inv hr
  obtain ⟨hp, t0, ht0, hst, ins, hins, hex⟩ := next_thread hn
  rw [ht] at ht0; cases ht0
  have hv := B.valid j t ht
  have hjl := getElem?_lt ht
  have hc2 : s.closed.contains 2 = true := by simpa using hc
  have hno : ∀ ch, ch ≠ 2 → s.closed.contains ch = false := by
    intro ch hne
    cases hcc : s.closed.contains ch with
    | false => rfl
    | true => exact absurd (B.closedOnly ch (by simpa using hcc)) hne
  have hawake := B.awake hc
  rcases hpc with hpc | hpc
  · have : ins = .select [.send 0 .a 2, .recv 2 none 1] := by
      simp [instrAt, sys, hfn, hpc, doFn, doCode] at hins; exact hins.symm
    subst this
    rcases exec_select hex with ⟨hk, hkl, hall, rfl⟩ | ⟨ch, r, n, hk, hcl, rfl⟩ | ⟨ch, r, n, tp, rp, np, hk, hcl, htp, hf, rfl⟩ | ⟨ch, r, n, hk, hcl, rfl⟩ | ⟨ch, r, n, tp, rp, np, hk, hcl, htp, hf, rfl⟩
    · have := hall (.recv 2 none 1) (by simp)
      simp [caseReady] at this
      exact absurd hc this.1
    · rcases k with _ | _ | k <;> simp at hk
      obtain ⟨rfl, rfl, rfl⟩ := hk
      refine ⟨goto (t.putOpt none (.nat 0)) 1, by simp [State.setThread, hjl], by simp [goto, Thread.putOpt, hst], by simp [goto, Thread.putOpt, hfn], Or.inl ⟨hpc, rfl⟩, ?_⟩
      simp [instrAt, sys, goto, Thread.putOpt, hfn, doFn, doCode]
    · have := hawake p tp htp
      rcases parked_cases (B.valid p tp htp) with ⟨_, hcs⟩ | ⟨h0, _⟩ | ⟨h0, _⟩ | ⟨h0, _⟩ | ⟨h0, _⟩
      · simp [hcs, findSend] at hf
      all_goals exact absurd h0 this
    · rcases k with _ | _ | k <;> simp at hk
      obtain ⟨rfl, rfl, rfl⟩ := hk
      rw [hno 0 (by decide)] at hcl; cases hcl
    · have := hawake p tp htp
      rcases parked_cases (B.valid p tp htp) with ⟨_, hcs⟩ | ⟨h0, _⟩ | ⟨h0, _⟩ | ⟨h0, _⟩ | ⟨h0, _⟩
      · simp [hcs, findRecv] at hf
      all_goals exact absurd h0 this
  · have : ins = .select [.recv 1 (some .b) 3, .recv 2 none 4] := by
      simp [instrAt, sys, hfn, hpc, doFn, doCode] at hins; exact hins.symm
    subst this
    rcases exec_select hex with ⟨hk, hkl, hall, rfl⟩ | ⟨ch, r, n, hk, hcl, rfl⟩ | ⟨ch, r, n, tp, rp, np, hk, hcl, htp, hf, rfl⟩ | ⟨ch, r, n, hk, hcl, rfl⟩ | ⟨ch, r, n, tp, rp, np, hk, hcl, htp, hf, rfl⟩
    · have := hall (.recv 2 none 4) (by simp)
      simp [caseReady] at this
      exact absurd hc this.1
    · rcases k with _ | _ | k <;> simp at hk
      · obtain ⟨rfl, rfl, rfl⟩ := hk
        rw [hno 1 (by decide)] at hcl; cases hcl
      · obtain ⟨rfl, rfl, rfl⟩ := hk
        refine ⟨goto (t.putOpt none (.nat 0)) 4, by simp [State.setThread, hjl], by simp [goto, Thread.putOpt, hst], by simp [goto, Thread.putOpt, hfn], Or.inr ⟨hpc, rfl⟩, ?_⟩
        simp [instrAt, sys, goto, Thread.putOpt, hfn, doFn, doCode]
    · have := hawake p tp htp
      rcases parked_cases (B.valid p tp htp) with ⟨_, hcs⟩ | ⟨h0, _⟩ | ⟨h0, _⟩ | ⟨h0, _⟩ | ⟨h0, _⟩
      · simp [hcs, findSend] at hf
      all_goals exact absurd h0 this
    · rcases k with _ | _ | k <;> simp at hk
    · rcases k with _ | _ | k <;> simp at hk

/-- ... and that `return 0, io.EOF` is what the caller observes. -/
theorem C41_eof_is_returned {s s' : State} {j k p : Nat} {v : Val} {t : Thread}
    (ht : s.threads[j]? = some t) (hi : instrAt sys t = some (.ret .eof))
    (hn : next sys s (.thread j k p v) = some s') : s'.trace = Ev.ret j t.fn .eof :: s.trace := by
  obtain ⟨hp, t0, ht0, hst, ins, hins, hex⟩ := next_thread hn
  rw [ht] at ht0; cases ht0
  rw [hi] at hins; cases hins
  simp only [exec] at hex
  cases hex
  simp [State.emit, State.setThread]

/-- Pending I/O is unblocked (enabledness): once `f.done` is closed, every Read/Write call and the
feeder goroutine that has not finished is runnable — not parked — and a step of it is enabled
(taking the `<-f.done` case where it is at a select). -/
theorem C41_pending_do_unblocked {root : List UInt8} {s : State} (hr : Reachable sys root s)
    (hc : 2 ∈ s.closed) {j : Nat} {t : Thread} (ht : s.threads[j]? = some t)
    (hfn : t.fn = 0 ∨ t.fn = 1) (hnd : t.st ≠ .done) :
    t.st = .run ∧ ∃ s', next sys s (.thread j 1 0 (.res 0 0)) = some s' := by
  obtain ⟨B, I⟩ := reach_inv hr
  have hv := B.valid j t ht
  have hnp := B.awake hc j t ht
  have hst : t.st = .run := by
    cases h : t.st with
    | run => rfl
    | parked => exact absurd h hnp
    | done => exact absurd h hnd
  refine ⟨hst, ?_⟩
  have hc2 : s.closed.contains 2 = true := by simpa using hc
  rcases hv with ⟨hf, hpc, _⟩ | ⟨hf, hpc, _⟩ | ⟨hf, _⟩
  · have : t.pc = 0 ∨ t.pc = 1 ∨ t.pc = 2 ∨ t.pc = 3 ∨ t.pc = 4 := by omega
    rcases this with e | e | e | e | e <;>
      simp [next, B.noPanic, ht, hst, instrAt, sys, hf, e, doFn, doCode, exec, hc]
  · have : t.pc = 0 ∨ t.pc = 1 ∨ t.pc = 2 ∨ t.pc = 3 ∨ t.pc = 4 := by omega
    rcases this with e | e | e | e | e <;>
      simp [next, B.noPanic, ht, hst, instrAt, sys, hf, e, runFn, runCode, exec, hc]
  · omega

/-- fakeConn uses its feeders as intended: Read goes through the reader feeder, which calls
`in.Read`; Write through the writer feeder, which calls `out.Write`; Close closes both feeders and
then the underlying streams; NewConn starts one `run` goroutine per feeder. -/
theorem C41_wiring : wiring = [
    ("Read", "c.reader.do(b)"),
    ("Write", "c.writer.do(b)"),
    ("Close", "c.reader.close(); c.writer.close(); c.in.Close(); c.out.Close(); return nil"),
    ("NewConn.reader", "newFeeder(in.Read)"),
    ("NewConn.writer", "newFeeder(out.Write)"),
    ("NewConn.go", "c.reader.run(); c.writer.run()")] := by decide

/-- Frame condition: in all of conn.go the feeder channels and the `closed` flag are touched only by
newFeeder (creation) and by the three translated programs, in exactly these ways. -/
theorem C41_frame : chanAccess = [("newFeeder", "init:input"), ("newFeeder", "init:result"),
    ("newFeeder", "init:done"), ("close", "read:closed"), ("close", "set:closed"), ("close", "close:done"),
    ("do", "send:input"), ("do", "recv:done"), ("do", "recv:result"), ("run", "recv:input"),
    ("run", "recv:done"), ("run", "send:result")] := by decide

/-! ### non-vacuity: concrete reachable states meeting the hypotheses -/

def runLabels (root : List UInt8) : List Label → Option State
  | [] => some (sys.init root)
  | l :: ls => match runLabels root ls with   -- labels newest first
    | none => none
    | some s => next sys s l

theorem runLabels_reachable {root : List UInt8} : ∀ (ls : List Label) (s : State),
    runLabels root ls = some s → Reachable sys root s
  | [], s, h => by simp [runLabels] at h; subst h; exact .init
  | l :: ls, s, h => by
    simp only [runLabels] at h
    split at h
    · cases h
    · rename_i s0 h0
      exact .step l (runLabels_reachable ls s0 h0) h

def buf : Val := .str [0x68, 0x69]   -- "hi"

/-- schedule (oldest first): the feeder parks at its first select; `do("hi")` (thread 1) hands the
buffer over; the source is called and returns (2, nil); the feeder finds nobody waiting for the
result yet and parks; the `do` call receives the result and returns it. -/
def schedRoundTrip : List Label := [
  .thread 0 2 0 (.nat 0), .spawn 0 buf (.nat 0), .thread 1 0 0 (.nat 0), .thread 0 0 0 (.res 2 0),
  .thread 0 2 0 (.nat 0), .thread 1 0 0 (.nat 0), .thread 1 0 0 (.nat 0)]

/-- schedule (oldest first): `do("hi")` (thread 1) parks in its first select (the feeder is not
waiting yet); `close` (thread 2) locks, tests and sets the flag, closes `done` — which claims the
parked `do`; that call returns EOF; a `do` started after the close (thread 3) is at pc 0 with
`done` closed. -/
def schedClose : List Label := [
  .spawn 0 buf (.nat 0), .thread 1 2 0 (.nat 0),
  .spawn 2 (.nat 0) (.nat 0), .thread 2 0 0 (.nat 0), .thread 2 0 0 (.nat 0), .thread 2 0 0 (.nat 0),
  .thread 2 0 0 (.nat 0), .thread 1 0 0 (.nat 0), .spawn 0 buf (.nat 0)]

example : (runLabels [] schedRoundTrip.reverse).map (fun s => s.trace) =
    some [.ret 1 0 (.val (.res 2 0)), .xfer 1 0 1 (.res 2 0), .call 0 buf (.res 2 0), .xfer 0 1 0 buf,
      .spawn 1 0 buf (.nat 0)] := by decide
example : (runLabels [] schedClose.reverse).map (fun s => (s.closed, s.threads.map (fun t => (t.fn, t.pc, t.st)), s.trace.take 3)) =
    some ([2], [(1, 0, .run), (0, 1, .done), (2, 4, .run), (0, 0, .run)],
      [.spawn 3 0 buf (.nat 0), .ret 1 0 .eof, .closed 2]) := by decide

end GopModel.C41
