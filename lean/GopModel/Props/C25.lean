/-
C25 — Go-to-XGo style conversion (`xgo fmt --smart`) preserves behaviour.

FULL STATEMENT (properties.jsonl): for every Go main program in the supported subset, the
XGo-style source produced by the smart formatter compiles with the XGo compiler and produces the
same output as the original Go program.

What is proved here is a KERNEL (the formatter's printing side, the XGo compiler and Go's
semantics are not modelled):
  * scope tracking (`formatCtx`, after fix commits 2c54056 / 94c70f5 / 52c6248) computes exactly
    Go's lexical visibility on the program abstraction `Stmt` — `C25_scope_agrees`,
    `C25_file_scope_agrees`; hence `C25_rewrite_sound_partial`: every `X.Sel` that is rewritten to
    a builtin has `X` resolving (Go scoping) to the file's `fmt` import, `Sel` a print function,
    and the builtin's name not hidden by any declaration of the file in scope;
    `C25_builtin_table_sound`: that builtin is defined by cl/builtin.go as the same `fmt`
    function (regenerated tables); `C25_import_removed_sound`: the `fmt` import is deleted only
    if no reference to it is left;
  * the snapshot's policy (only var/const tracked) is unsound: witnesses
    `C25_old_policy_witness_define`, `C25_old_policy_witness_param`,
    `C25_old_policy_witness_builtin_capture`, `C25_old_policy_witness_for_post`;
  * `fncallStartingLowerCase`: `C25_lowercase_call_partial` (sound for methods/package functions
    without a case-colliding sibling) and witnesses of the three defects that remain in the tree
    (recorded as findings): `C25_lowercase_collision_witness`, `C25_lowercase_field_witness`,
    `C25_lowercase_typeconv_witness`;
  * `funcLitToLambdaExpr`: `C25_lambda_shape` (parameter names, arity, result expressions kept;
    types dropped — why inference can fail: finding lambda-untyped-param).
Everything else of the statement is covered by the differential/oracle run of `harness/cmd/c25`
only (original Go program vs converted-and-compiled XGo program, output and exit status).
-/
import GopModel.Model.GopStyle
namespace GopModel.GopStyle

@[simp] theorem pf_define : policyFixed.define = true := rfl
@[simp] theorem pf_params : policyFixed.params = true := rfl
@[simp] theorem pf_range : policyFixed.range = true := rfl
@[simp] theorem pf_typ : policyFixed.typ = true := rfl
@[simp] theorem pf_forPost : policyFixed.forPost = true := rfl
@[simp] theorem pf_clauseBlock : policyFixed.clauseBlock = true := rfl
@[simp] theorem pf_funcNames : policyFixed.funcNames = true := rfl
@[simp] theorem pf_builtinGuard : policyFixed.builtinGuard = true := rfl

/-- The scope chain and the environment agree on which names are declared. -/
def Rel (sc : Scopes) (e : List String) : Prop := ∀ n, declared sc n = e.contains n

theorem rel_enter {sc e} (h : Rel sc e) : Rel (enter sc) e := by
  intro n; simp [declared, enter]; simpa [declared] using h n

theorem rel_insertAll {sc e} (ns : List String) (h : Rel sc e) : Rel (insertAll ns sc) (ns ++ e) := by
  intro n
  have hn := h n
  rw [Bool.eq_iff_iff] at hn ⊢
  cases sc with
  | nil =>
    simp only [declared, List.any_nil, Bool.false_eq_true, false_iff] at hn
    simp only [insertAll, declared, List.any_cons, List.any_nil, Bool.or_false]
    simp only [List.contains_iff_mem, List.mem_append] at hn ⊢
    exact ⟨Or.inl, fun h => h.elim id (fun h' => absurd h' hn)⟩
  | cons hd tl =>
    simp only [declared, List.any_cons, Bool.or_eq_true, List.contains_iff_mem] at hn
    simp only [insertAll, declared, List.any_cons, Bool.or_eq_true, List.contains_iff_mem, List.mem_append]
    rw [← hn]
    constructor
    · rintro ((h | h) | h)
      · exact Or.inl h
      · exact Or.inr (Or.inl h)
      · exact Or.inr (Or.inr h)
    · rintro (h | h | h)
      · exact Or.inl (Or.inl h)
      · exact Or.inl (Or.inr h)
      · exact Or.inr h
theorem rel_insert_one {sc e} (n : String) (h : Rel sc e) : Rel (insertAll [n] sc) (n :: e) := by
  simpa using rel_insertAll [n] h

theorem decideUse_congr (P : Policy) (imps : List (String × String)) (f g : String → Bool)
    (h : ∀ n, f n = g n) (x sel tag : String) :
    decideUse P imps f x sel tag = decideUse P imps g x sel tag := by
  have : f = g := funext h
  rw [this]

/-- **The scope stack computes Go's visibility.**  For every statement tree, starting from a
scope chain that agrees with the environment, the fixed formatter takes for every use exactly the
decision prescribed by the environment-passing specification, and the chain afterwards agrees
with the environment afterwards. -/
theorem C25_scope_agrees (imps : List (String × String)) : ∀ (s : Stmt) (sc : Scopes) (e : List String),
    Rel sc e →
    (fmtS policyFixed imps s sc).1 = (goS s e).1.map (decOfUse imps) ∧
    Rel (fmtS policyFixed imps s sc).2 (goS s e).2
  | .skip, sc, e, h => by simp [fmtS, goS, h]
  | .seq a b, sc, e, h => by
    obtain ⟨h1, h1r⟩ := C25_scope_agrees imps a sc e h
    obtain ⟨h2, h2r⟩ := C25_scope_agrees imps b _ _ h1r
    simp [fmtS, goS, h1, h2, h2r]
  | .block s, sc, e, h => by
    obtain ⟨h1, _⟩ := C25_scope_agrees imps s (enter sc) e (rel_enter h)
    simp [fmtS, goS, h1, h]
  | .use x sel tag, sc, e, h => by
    simp only [fmtS, goS, List.map_cons, List.map_nil, decOfUse]
    exact ⟨by rw [decideUse_congr _ _ _ _ h], h⟩
  | .define ns rhs, sc, e, h => by
    obtain ⟨h1, h1r⟩ := C25_scope_agrees imps rhs sc e h
    simp [fmtS, goS, h1, rel_insertAll ns h1r]
  | .varDecl ns rhs, sc, e, h => by
    obtain ⟨h1, h1r⟩ := C25_scope_agrees imps rhs sc e h
    simp [fmtS, goS, h1, rel_insertAll ns h1r]
  | .typeDecl n body, sc, e, h => by
    obtain ⟨h1, h1r⟩ := C25_scope_agrees imps body (insertAll [n] sc) (n :: e) (rel_insert_one n h)
    simp [fmtS, goS, h1, h1r]
  | .funcLit ps body, sc, e, h => by
    obtain ⟨h1, _⟩ := C25_scope_agrees imps body (enter (insertAll ps (enter sc))) (ps ++ e)
      (rel_enter (rel_insertAll ps (rel_enter h)))
    simp [fmtS, goS, h1, h]
  | .ifS i c t el, sc, e, h => by
    obtain ⟨h0, h0r⟩ := C25_scope_agrees imps i (enter sc) e (rel_enter h)
    obtain ⟨h1, h1r⟩ := C25_scope_agrees imps c _ _ h0r
    obtain ⟨h2, _⟩ := C25_scope_agrees imps t (enter _) _ (rel_enter h1r)
    obtain ⟨h3, _⟩ := C25_scope_agrees imps el _ _ h1r
    simp [fmtS, goS, h0, h1, h2, h3, h]
  | .forS i c p b, sc, e, h => by
    obtain ⟨h0, h0r⟩ := C25_scope_agrees imps i (enter sc) e (rel_enter h)
    obtain ⟨h1, h1r⟩ := C25_scope_agrees imps c _ _ h0r
    obtain ⟨h2, h2r⟩ := C25_scope_agrees imps p _ _ h1r
    obtain ⟨h3, _⟩ := C25_scope_agrees imps b (enter _) _ (rel_enter h2r)
    simp [fmtS, goS, h0, h1, h2, h3, h]
  | .rangeS d kv x b, sc, e, h => by
    obtain ⟨h0, h0r⟩ := C25_scope_agrees imps x (enter sc) e (rel_enter h)
    cases d with
    | true =>
      obtain ⟨h1, _⟩ := C25_scope_agrees imps b (enter (insertAll kv _)) (kv ++ _)
        (rel_enter (rel_insertAll kv h0r))
      simp [fmtS, goS, h0, h1, h]
    | false =>
      obtain ⟨h1, _⟩ := C25_scope_agrees imps b (enter _) _ (rel_enter h0r)
      simp [fmtS, goS, h0, h1, h]
  | .switchS i t cl, sc, e, h => by
    obtain ⟨h0, h0r⟩ := C25_scope_agrees imps i (enter sc) e (rel_enter h)
    obtain ⟨h1, h1r⟩ := C25_scope_agrees imps t _ _ h0r
    obtain ⟨h2, _⟩ := C25_scope_agrees imps cl (enter _) _ (rel_enter h1r)
    simp [fmtS, goS, h0, h1, h2, h]
  | .clause ex body, sc, e, h => by
    obtain ⟨h0, h0r⟩ := C25_scope_agrees imps ex sc e h
    obtain ⟨h1, _⟩ := C25_scope_agrees imps body (enter _) _ (rel_enter h0r)
    simp [fmtS, goS, h0, h1, h0r]
  | .labeled l s, sc, e, h => by
    obtain ⟨h1, h1r⟩ := C25_scope_agrees imps s sc e h
    simp [fmtS, goS, h1, h1r]

/-- Expressions do not change the environment (so threading it through expression positions in
`goS` is the identity on real programs). -/
theorem goS_expr_env : ∀ (s : Stmt) (e : List String), isExpr s = true → (goS s e).2 = e
  | .skip, _, _ => rfl
  | .seq a b, e, h => by
    simp only [isExpr, Bool.and_eq_true] at h
    simp [goS, goS_expr_env a e h.1, goS_expr_env b e h.2]
  | .use _ _ _, _, _ => rfl
  | .funcLit _ _, _, _ => rfl
  | .block _, _, h | .define _ _, _, h | .varDecl _ _, _, h | .typeDecl _ _, _, h
  | .ifS _ _ _ _, _, h | .forS _ _ _ _, _, h | .rangeS _ _ _ _, _, h | .switchS _ _ _, _, h
  | .clause _ _, _, h | .labeled _ _, _, h => by simp [isExpr] at h

theorem rel_root (f : File) : Rel (rootScope policyFixed f) (fileEnv f) := by
  intro n
  simp [declared, rootScope, policyFixed, fileEnv, List.append_assoc]

/-- File level: all decisions of `formatFile` are the prescribed ones. -/
theorem C25_file_scope_agrees (f : File) :
    (fmtFile policyFixed f).1 = (goFile f).map (decOfUse f.imports) := by
  simp only [fmtFile, goFile, List.map_flatMap]
  congr 1
  funext fn
  have hrel : Rel (enter (insertAll (fn.recv ++ fn.params ++ fn.results) (enter (rootScope policyFixed f))))
      (fn.recv ++ fn.params ++ fn.results ++ fileEnv f) :=
    rel_enter (rel_insertAll _ (rel_enter (rel_root f)))
  have := (C25_scope_agrees f.imports fn.body _ _ hrel).1
  simp only [fmtFunc, policyFixed, if_true]
  simpa [policyFixed] using this

theorem decideUse_rewritten {P : Policy} {imps : List (String × String)} {decl : String → Bool}
    {x sel tag tag' b : String} (h : decideUse P imps decl x sel tag = .rewritten tag' b) :
    tag' = tag ∧ decl x = false ∧ ∃ path, imps.lookup x = some path ∧ builtinFor path sel = some b ∧
      (P.builtinGuard = true → decl b = false) := by
  unfold decideUse at h
  split at h
  · cases h
  · rename_i hx
    split at h
    · cases h
    · rename_i path hp
      split at h
      · rename_i b' hb
        split at h
        · cases h
        · rename_i hg
          cases h
          refine ⟨rfl, by simpa using hx, path, hp, hb, ?_⟩
          intro hG
          simpa [hG] using hg
      · cases h

theorem builtinFor_fmt {path sel b : String} (h : builtinFor path sel = some b) :
    path = Gen.fmtPkgPath := by
  unfold builtinFor at h
  split at h
  · assumption
  · cases h

/-- **Rewrite soundness.**  Every selector the fixed formatter rewrites to a builtin `b` is a use
`X.Sel` of the program such that, under Go scoping, no declaration in scope hides `X` (so `X`
denotes the file's import of that name), that import's path is `fmt`, `Sel` is in the print table
with `b` its builtin, and no declaration in scope hides `b` either.
_partial: declarations in other files of the package and in dot-imports are outside the model
(finding builtin-name-capture-crossfile); that `b` then behaves like `fmt.Sel` is
`C25_builtin_table_sound` plus the unmodelled compiler. -/
theorem C25_rewrite_sound_partial (f : File) (tag b : String)
    (h : Dec.rewritten tag b ∈ (fmtFile policyFixed f).1) :
    ∃ u ∈ goFile f, u.tag = tag ∧ u.env.contains u.x = false ∧
      f.imports.lookup u.x = some Gen.fmtPkgPath ∧ builtinFor Gen.fmtPkgPath u.sel = some b ∧
      u.env.contains b = false := by
  rw [C25_file_scope_agrees] at h
  obtain ⟨u, hu, hd⟩ := List.mem_map.mp h
  obtain ⟨ht, hx, path, hp, hb, hg⟩ := decideUse_rewritten hd
  have hpath := builtinFor_fmt hb
  subst hpath
  exact ⟨u, hu, ht.symm, hx, hp, hb, hg rfl⟩

/-- The builtin chosen for every row of `printFuncs` is defined in cl/builtin.go as the very
`fmt` function of that row (both tables regenerated from /repo on every run). -/
theorem C25_builtin_table_sound :
    ∀ r ∈ Gen.printFuncs,
      builtinFor Gen.fmtPkgPath r.1 = some (if r.2 = Gen.renameFrom then Gen.renameTo else r.2) ∧
      Gen.fmtBuiltins.lookup (if r.2 = Gen.renameFrom then Gen.renameTo else r.2) = some r.1 ∧
      r.2 = lowerFirst r.1 := by
  decide

theorem mem_usedNames {ds : List Dec} {tag x : String} (h : Dec.keptUsed tag x ∈ ds) :
    x ∈ usedNames ds := by
  induction ds with
  | nil => simp at h
  | cons d r ih =>
    rcases List.mem_cons.mp h with rfl | h'
    · simp [usedNames]
    · cases d <;> simp [usedNames, ih h']

theorem lookup_isSome_of_mem {imps : List (String × String)} {n path : String}
    (h : (n, path) ∈ imps) : ∃ p, imps.lookup n = some p := by
  induction imps with
  | nil => simp at h
  | cons hd tl ih =>
    by_cases hn : n = hd.1
    · exact ⟨hd.2, by simp [List.lookup, hn]⟩
    · have hne : (n == hd.1) = false := by simpa using hn
      rcases List.mem_cons.mp h with rfl | h'
      · exact absurd rfl hn
      · obtain ⟨p, hp⟩ := ih h'
        exact ⟨p, by rw [List.lookup, hne]; exact hp⟩

/-- a visible reference to an import is either rewritten or marks the import as used -/
theorem decideUse_import {P : Policy} {imps : List (String × String)} {decl : String → Bool}
    {x sel tag path : String} (hx : decl x = false) (hp : imps.lookup x = some path) :
    (∃ b, decideUse P imps decl x sel tag = .rewritten tag b) ∨
    decideUse P imps decl x sel tag = .keptUsed tag x := by
  simp only [decideUse, hx, Bool.false_eq_true, if_false, hp]
  split
  · split
    · exact Or.inr rfl
    · exact Or.inl ⟨_, rfl⟩
  · exact Or.inr rfl

/-- **Import removal.**  If the `fmt` import named `n` is deleted, then every use `n.Sel` that
refers to it (nothing in scope hides `n`) was rewritten to a builtin: no reference is left. -/
theorem C25_import_removed_sound (f : File) (n : String) (h : n ∈ (fmtFile policyFixed f).2)
    (u : Use) (hu : u ∈ goFile f) (hx : u.x = n) (hvis : u.env.contains u.x = false) :
    ∃ b, decOfUse f.imports u = .rewritten u.tag b := by
  simp only [fmtFile, List.mem_map, List.mem_filter] at h
  obtain ⟨⟨n', path⟩, ⟨himp, hcond⟩, hn⟩ := h
  simp only at hn
  subst hn
  simp only [Bool.and_eq_true, beq_iff_eq, Bool.not_eq_true'] at hcond
  obtain ⟨p, hp⟩ := lookup_isSome_of_mem himp
  have hdec : decOfUse f.imports u ∈ (fmtFile policyFixed f).1 := by
    rw [C25_file_scope_agrees]; exact List.mem_map_of_mem hu
  rcases decideUse_import (P := policyFixed) (imps := f.imports) (decl := fun m => u.env.contains m)
      (sel := u.sel) (tag := u.tag) (x := u.x) (path := p) hvis (by rw [hx]; exact hp) with hr | hk
  · exact hr
  · exfalso
    have hk' : decOfUse f.imports u = .keptUsed u.tag u.x := hk
    rw [hk'] at hdec
    have hmem := mem_usedNames hdec
    have hnot := hcond.2
    simp only [fmtFile] at hmem
    rw [hx] at hmem
    have : (usedNames (List.flatMap (fmtFunc policyFixed f.imports (rootScope policyFixed f)) f.funcs)).contains n' = true := by
      simpa using hmem
    rw [this] at hnot
    cases hnot

/-! ## the snapshot's policy is unsound (witnesses, each replayed on the real code by the harness
units `shadowed-fmt-define`, `shadowed-fmt-param`, `builtin-name-capture`, `for-post`) -/

def fmtImp : List (String × String) := [("fmt", "fmt")]

/-- `func main() { { fmt := T{}; fmt.Println("b") } }` -/
def witnessDefine : File :=
  { imports := fmtImp, vars := [], types := ["T"],
    funcs := [⟨"main", [], false, [], [],
      .block (.seq (.define ["fmt"] .skip) (.use "fmt" "Println" "t1"))⟩] }

theorem C25_old_policy_witness_define :
    (fmtFile policyOld witnessDefine).1 = [.rewritten "t1" "echo"] ∧
    (goFile witnessDefine).map (fun u => u.env.contains u.x) = [true] ∧
    (fmtFile policyFixed witnessDefine).1 = [.kept "t1"] := by decide

/-- `func f(fmt T) { fmt.Println("b") }` -/
def witnessParam : File :=
  { imports := fmtImp, vars := [], types := ["T"],
    funcs := [⟨"f", [], false, ["fmt"], [], .use "fmt" "Println" "t1"⟩] }

theorem C25_old_policy_witness_param :
    (fmtFile policyOld witnessParam).1 = [.rewritten "t1" "echo"] ∧
    (goFile witnessParam).map (fun u => u.env.contains u.x) = [true] ∧
    (fmtFile policyFixed witnessParam).1 = [.kept "t1"] := by decide

/-- `func echo(a ...any) {…}; func main() { fmt.Println("x") }`: the rewritten call would be
captured by the user's `echo`. -/
def witnessCapture : File :=
  { imports := fmtImp, vars := [], types := [],
    funcs := [⟨"echo", [], false, ["a"], [], .skip⟩, ⟨"main", [], false, [], [], .use "fmt" "Println" "t1"⟩] }

theorem C25_old_policy_witness_builtin_capture :
    (fmtFile policyOld witnessCapture).1 = [.rewritten "t1" "echo"] ∧
    (goFile witnessCapture).map (fun u => u.env.contains "echo") = [true] ∧
    (fmtFile policyFixed witnessCapture) = ([.keptUsed "t1" "fmt"], []) := by decide

/-- `for i := 0; i < 2; fmt.Print("p") { }` with no other use of fmt: the post statement was
not visited, the import was deleted although a reference is left. -/
def witnessForPost : File :=
  { imports := fmtImp, vars := [], types := [],
    funcs := [⟨"main", [], false, [], [],
      .forS (.define ["i"] .skip) .skip (.use "fmt" "Sscan" "t1") .skip⟩] }

theorem C25_old_policy_witness_for_post :
    fmtFile policyOld witnessForPost = ([], ["fmt"]) ∧
    (goFile witnessForPost).map (fun u => (u.tag, u.env.contains u.x)) = [("t1", false)] ∧
    fmtFile policyFixed witnessForPost = ([.keptUsed "t1" "fmt"], []) := by decide

/-! Non-vacuity of the soundness theorems: a file where rewriting does happen next to shadowing. -/
def exFile : File :=
  { imports := [("fmt", "fmt"), ("strings", "strings"), ("f", "fmt")], vars := ["g"], types := ["T"],
    funcs := [⟨"run", ["r"], true, ["p"], [],
      .seq (.use "fmt" "Println" "a")
        (.seq (.ifS (.define ["fmt"] .skip) (.use "fmt" "Sprint" "b") (.use "f" "Errorf" "c") (.block (.use "fmt" "Print" "d")))
          (.seq (.use "fmt" "Printf" "e")
            (.seq (.rangeS true ["_", "strings"] (.use "strings" "Fields" "f") (.use "strings" "ToUpper" "g"))
              (.switchS .skip .skip
                (.seq (.clause .skip (.seq (.define ["echo"] .skip) (.use "fmt" "Println" "h")))
                      (.clause .skip (.use "fmt" "Println" "i")))))))⟩] }

example : fmtFile policyFixed exFile =
    ([.rewritten "a" "echo", .kept "b", .rewritten "c" "errorf", .kept "d", .rewritten "e" "printf",
      .keptUsed "f" "strings", .kept "g", .keptUsed "h" "fmt", .rewritten "i" "echo"], ["f"]) := by decide

/-! ## lower-casing of called selectors -/

/-- `x.Name(...)` → `x.name(...)` still denotes `Name` when `Name` is a method or a package
function, capitalising the lower-cased name gives `Name` back (true for every name that starts
with an ASCII upper-case letter, see the examples) and no member is literally called `name`.
_partial: `xgoLookup` is an assumption about the compiler's member lookup. -/
theorem C25_lowercase_call_partial (members : List (String × MemberKind)) (n : String)
    (hcap : capFirst (lowerFirst n) = n)
    (hk : members.lookup n = some .method ∨ members.lookup n = some .pkgFunc)
    (hno : members.lookup (lowerFirst n) = none) :
    xgoLookup members (lowerFirst n) = some n := by
  simp only [xgoLookup, hno, Option.isSome_none, Bool.false_eq_true, if_false, hcap]
  rcases hk with h | h <;> simp [h]

example : capFirst (lowerFirst "Println") = "Println" := by decide
example : capFirst (lowerFirst "ToUpper") = "ToUpper" := by decide
example : lowerFirst "UTC" = "uTC" ∧ capFirst "uTC" = "UTC" := by decide
example : xgoLookup [("ToUpper", .pkgFunc), ("Title", .pkgFunc)] (lowerFirst "ToUpper") = some "ToUpper" := by decide

/-- finding lowercase-method-collision: `t.Foo()` becomes `t.foo()`, which is the other method. -/
theorem C25_lowercase_collision_witness :
    xgoLookup [("Foo", .method), ("foo", .method)] (lowerFirst "Foo") = some "foo" := by decide

/-- finding lowercase-field-call: `s.F(3)` (field of func type) becomes `s.f(3)`: not found. -/
theorem C25_lowercase_field_witness :
    xgoLookup [("F", .field)] (lowerFirst "F") = none := by decide

/-- finding lowercase-pkg-typeconv: `time.Duration(5)` becomes `time.duration(5)`: not found. -/
theorem C25_lowercase_typeconv_witness :
    xgoLookup [("Duration", .pkgType), ("Now", .pkgFunc)] (lowerFirst "Duration") = none ∧
    xgoLookup [("Duration", .pkgType), ("Now", .pkgFunc)] (lowerFirst "Now") = some "Now" := by decide

/-! ## function literal → lambda -/

def arity (ps : List (List String)) : Nat :=
  (ps.map fun f => if f.isEmpty then 1 else f.length).sum

theorem lambdaLhs_length (ps : List (List String)) : (lambdaLhs ps).length = arity ps := by
  induction ps with
  | nil => rfl
  | cons f r ih =>
    simp only [lambdaLhs, List.flatMap_cons, List.length_append, arity, List.map_cons, List.sum_cons] at ih ⊢
    rw [ih]; cases f <;> simp

/-- **Lambda shape.**  When a function literal argument is converted, the lambda has one
left-hand identifier per parameter — the parameter names in order, `_` for an unnamed parameter —
and a lambda *expression* is produced exactly for a body that is a single `return` of as many
expressions as the literal has results; those expressions are kept in order.  Literals with named
results are not converted.  (Parameter and result *types* are not part of a lambda: they are
dropped.) -/
theorem C25_lambda_shape (f : FuncLit) :
    (toLambda f = .unchanged ↔ ((checkResult f.results).2 ≠ [] ∨ f.variadic = true)) ∧
    (∀ lhs rhs lp rp, toLambda f = .expr lhs rhs lp rp →
        lhs = lambdaLhs f.params ∧ lhs.length = arity f.params ∧ f.body = [.ret rhs] ∧
        rhs.length = (checkResult f.results).1 ∧ lp = decide (lhs.length > 1) ∧ rp = decide (rhs.length > 1)) ∧
    (∀ lhs body lp, toLambda f = .blockL lhs body lp →
        lhs = lambdaLhs f.params ∧ lhs.length = arity f.params ∧ body = f.body ∧ lp = decide (lhs.length > 1)) := by
  unfold toLambda
  cases hcr : checkResult f.results with
  | mk nres named =>
    simp only []
    cases hn : named.isEmpty with
    | false =>
      have : named ≠ [] := by intro h; simp [h] at hn
      simp [this]
    | true =>
      have hnil : named = [] := by simpa using hn
      cases hv : f.variadic with
      | true => simp [hnil]
      | false =>
        simp only [Bool.not_true, Bool.false_eq_true, if_false, hnil, ne_eq, not_true_eq_false,
          false_or, iff_false]
        refine ⟨?_, ?_, ?_⟩
        · split
          · split <;> simp
          · simp
        · intro lhs rhs lp rp h
          split at h
          · rename_i rs hb
            split at h
            · rename_i hlen
              cases h
              exact ⟨rfl, lambdaLhs_length _, hb, hlen, rfl, rfl⟩
            · cases h
          · cases h
        · intro lhs body lp h
          split at h
          · split at h
            · cases h
            · cases h; exact ⟨rfl, lambdaLhs_length _, rfl, rfl⟩
          · cases h; exact ⟨rfl, lambdaLhs_length _, rfl, rfl⟩

/-- `demo(func(n int) int { return n + 100 })` → `demo(n => n + 100)`;
`func(int, int) int { return -600 }` → `(_, _) => -600`; named results are left alone. -/
example : toLambda ⟨[["n"]], false, [[]], [.ret [7]]⟩ = .expr ["n"] [7] false false := by decide
example : toLambda ⟨[[], []], false, [[]], [.ret [7]]⟩ = .expr ["_", "_"] [7] true false := by decide
example : toLambda ⟨[["a", "b"]], false, [["v"]], [.ret [1]]⟩ = .unchanged := by decide
example : toLambda ⟨[["a", "b"]], false, [[]], [.ret [1, 2]]⟩ = .blockL ["a", "b"] [.ret [1, 2]] true := by decide
example : toLambda ⟨[["xs"]], true, [[]], [.ret [1]]⟩ = .unchanged := by decide

/-- `strings.Map(f, s)` keeps its name (`map` is a keyword), `strings.ToUpper` is lower-cased. -/
theorem C25_lowercase_keyword_guard :
    lowerCall "Map" = "Map" ∧ lowerCall "Range" = "Range" ∧ lowerCall "ToUpper" = "toUpper" ∧
    ∀ k ∈ Gen.keywords, lowerCall (capFirst k) = capFirst k := by decide

end GopModel.GopStyle
