/-
C34 — directory parsing selects and classifies exactly the right files.

Property theorems about `GopModel.DirClassify` (model of parser.ParseFSDir / ParseFSEntry /
ParseFSEntries / defaultClassKind).  They hold for every file name (any byte string), every
class-kind function (`ClassKindFn`, or `none` = `defaultClassKind`), every mode/filter
configuration and every directory listing.
-/
import GopModel.Model.DirClassify
import GopModel.Generated.DirClassify
set_option linter.unusedSimpArgs false
namespace GopModel.DirClassify

/-! ## What the statement calls things -/

/-- Extensions handled without asking the class-kind function. -/
abbrev PlainExt (n : Name) : Prop := ext n = dotXgo ∨ ext n = dotGop ∨ ext n = dotGo

/-- "a recognised extension": `.xgo .gop .go .gox`, or the class-kind function knows the file. -/
abbrev Recognised (ck : ClassKindFn) (n : Name) : Prop :=
  PlainExt n ∨ ext n = dotGox ∨ (ck n).2 = true

/-- "gop_autogen Go files". -/
abbrev AutogenGo (n : Name) : Prop := ext n = dotGo ∧ isAutogen n = true

/-- The selection rule of the statement for one directory entry. -/
def Included (cfg : Config) (e : Entry) : Prop :=
  e.isDir = false ∧ underscore e.name = false ∧ (cfg.hasFilter = true → e.filterOk = true) ∧
  Recognised cfg.ck e.name ∧ ¬AutogenGo e.name

/-- The classification rule of the statement. -/
def expectedFlags (ck : ClassKindFn) (n : Name) : Flags :=
  if PlainExt n then Flags.none
  else ⟨(ck n).1, true, decide (ext n = dotGox) && !(ck n).2⟩

/-- go/parser is used exactly for `.go` files unless `ParseGoAsGoPlus` is set. -/
abbrev UsesGoParser (cfg : Config) (n : Name) : Prop := ext n = dotGo ∧ cfg.goAsXGo = false

/-! ## `path.Ext` -/

theorem extRev_suffix : ∀ (r acc : List UInt8), ∃ p, r.reverse ++ acc = p ++ extRev r acc
  | [], acc => ⟨acc, by simp [extRev]⟩
  | c :: cs, acc => by
    unfold extRev
    split
    · exact ⟨(c :: cs).reverse ++ acc, by simp⟩
    · split
      · exact ⟨cs.reverse, by simp⟩
      · obtain ⟨p, hp⟩ := extRev_suffix cs (c :: acc)
        exact ⟨p, by simpa using hp⟩

theorem extRev_shape : ∀ (r acc : List UInt8), (0x2e : UInt8) ∉ acc → (0x2f : UInt8) ∉ acc →
    extRev r acc = [] ∨ ∃ t, extRev r acc = 0x2e :: t ∧ (0x2e : UInt8) ∉ t ∧ (0x2f : UInt8) ∉ t
  | [], _, _, _ => Or.inl rfl
  | c :: cs, acc, h1, h2 => by
    unfold extRev
    split
    · exact Or.inl rfl
    · rename_i hs
      split
      · rename_i hd
        exact Or.inr ⟨acc, by rw [hd], h1, h2⟩
      · rename_i hd
        apply extRev_shape cs (c :: acc)
        · simp only [List.mem_cons, not_or]; exact ⟨fun h => hd h.symm, h1⟩
        · simp only [List.mem_cons, not_or]; exact ⟨fun h => hs h.symm, h2⟩

theorem extRev_nil_iff : ∀ (r acc : List UInt8), (0x2f : UInt8) ∉ r →
    (extRev r acc = [] ↔ (0x2e : UInt8) ∉ r)
  | [], _, _ => by simp [extRev]
  | c :: cs, acc, h => by
    simp only [List.mem_cons, not_or] at h
    unfold extRev
    have hc : ¬ c = 0x2f := fun e => h.1 e.symm
    simp only [hc, if_false]
    by_cases hd : c = 0x2e
    · simp [hd]
    · simp only [hd, if_false, List.mem_cons, not_or]
      rw [extRev_nil_iff cs (c :: acc) h.2]
      constructor
      · intro h'; exact ⟨fun e => hd e.symm, h'⟩
      · intro h'; exact h'.2

/-- `path.Ext(s)` is a suffix of `s`. -/
theorem C34_ext_is_suffix (s : Name) : ∃ p, s = p ++ ext s := by
  obtain ⟨p, hp⟩ := extRev_suffix s.reverse []
  exact ⟨p, by simpa [ext] using hp⟩

/-- `path.Ext(s)` is empty or starts at a '.' and contains no further '.' and no '/':
together with `C34_ext_is_suffix` it is the suffix starting at the last '.' . -/
theorem C34_ext_shape (s : Name) :
    ext s = [] ∨ ∃ t, ext s = 0x2e :: t ∧ (0x2e : UInt8) ∉ t ∧ (0x2f : UInt8) ∉ t :=
  extRev_shape s.reverse [] (by simp) (by simp)

/-- A file name (no '/') has an empty extension exactly when it contains no '.'. -/
theorem C34_ext_empty_iff (s : Name) (h : (0x2f : UInt8) ∉ s) :
    ext s = [] ↔ (0x2e : UInt8) ∉ s := by
  have := extRev_nil_iff s.reverse [] (by simpa using h)
  simpa [ext] using this

/-! ## the extension switch -/

theorem classifyDir_spec (g : Bool) (ck : ClassKindFn) (n : Name) :
    classifyDir g ck n =
      if ext n = dotXgo ∨ ext n = dotGop then .xgoFile Flags.none
      else if ext n = dotGo then
        (if isAutogen n then .skip else if g then .xgoFile Flags.none else .goFile)
      else if (ck n).2 then .xgoFile ⟨(ck n).1, true, false⟩
      else if ext n = dotGox then .xgoFile ⟨(ck n).1, true, true⟩ else .skip := by
  unfold classifyDir classBranch
  simp only []
  split
  · rfl
  · split
    · rfl
    · cases h : (ck n).2 <;> simp
      split <;> simp_all

theorem classifyEntry_spec (ck : ClassKindFn) (n : Name) :
    classifyEntry ck n =
      if PlainExt n then some Flags.none
      else if (ck n).2 then some ⟨(ck n).1, true, false⟩
      else if ext n = dotGox then some ⟨(ck n).1, true, true⟩ else none := by
  unfold classifyEntry classBranch PlainExt
  simp only []
  by_cases hp : ext n = dotXgo ∨ ext n = dotGop ∨ ext n = dotGo
  · simp only [hp, if_true]
  · simp only [hp, if_false]
    cases h : (ck n).2 <;> simp

/-- The switch of `ParseFSDir` in terms of the statement's vocabulary: a name is skipped by the
switch iff it is not recognised or is a gop_autogen Go file; otherwise it goes to go/parser iff
`UsesGoParser`, and carries exactly `expectedFlags`. -/
theorem C34_switch (g : Bool) (ck : ClassKindFn) (n : Name) :
    classifyDir g ck n =
      if ¬Recognised ck n ∨ AutogenGo n then Kind.skip
      else if ext n = dotGo ∧ g = false then Kind.goFile
      else Kind.xgoFile (expectedFlags ck n) := by
  rw [classifyDir_spec]
  unfold Recognised AutogenGo expectedFlags PlainExt
  by_cases h1 : ext n = dotXgo
  · simp [h1, dotXgo, dotGo]
  by_cases h2 : ext n = dotGop
  · simp [h2, dotGop, dotGo]
  by_cases h3 : ext n = dotGo
  · cases ha : isAutogen n <;> cases g <;> simp [h3, ha, dotGo, dotXgo, dotGop]
  by_cases h4 : ext n = dotGox
  · cases hk : (ck n).2 <;> simp [h4, hk, dotGox, dotXgo, dotGop, dotGo]
  · cases hk : (ck n).2 <;> simp [h1, h2, h3, h4, hk]

/-! ## C34: inclusion -/

/-- An entry is handed to a parser exactly when the statement's selection rule holds: it is
not a directory, has no underscore prefix, passes the filter (if any), has a recognised
extension, and is not a gop_autogen Go file. -/
theorem C34_included_iff (cfg : Config) (e : Entry) :
    outcome cfg e ≠ .skipped ↔ Included cfg e := by
  unfold outcome Included
  rw [C34_switch]
  cases hd : e.isDir
  · simp only [Bool.false_eq_true, if_false, true_and]
    by_cases hs : ¬Recognised cfg.ck e.name ∨ AutogenGo e.name
    · rw [if_pos hs]
      simp only [ne_eq, not_true_eq_false, false_iff]
      rintro ⟨_, _, hr, ha⟩
      rcases hs with hs | hs
      · exact hs hr
      · exact ha hs
    · rw [if_neg hs]
      have hs' : Recognised cfg.ck e.name ∧ ¬AutogenGo e.name :=
        ⟨Classical.byContradiction (fun h => hs (Or.inl h)), fun h => hs (Or.inr h)⟩
      by_cases hg : ext e.name = dotGo ∧ cfg.goAsXGo = false
      · rw [if_pos hg]
        cases hu : underscore e.name <;> cases hf : cfg.hasFilter <;> cases ho : e.filterOk <;>
          cases hp : parseErr Parser.go e.content.kind <;> simp [hs']
      · rw [if_neg hg]
        cases hu : underscore e.name <;> cases hf : cfg.hasFilter <;> cases ho : e.filterOk <;>
          simp [hs']
  · simp

/-- What is stored for an included entry: the slot is keyed by the entry's own name and the
package name of its content; it is in `GoFiles` iff go/parser is used; class / project /
normal-gox flags follow the extension and the class-kind function; the XGo parser runs in class
mode iff the file is a class file (or the caller asked for class mode); a file on which
go/parser fails is not stored. -/
theorem C34_classified (cfg : Config) (e : Entry) (h : Included cfg e) :
    outcome cfg e =
      if UsesGoParser cfg e.name then
        (if parseErr .go e.content.kind then Outcome.errOnly
         else Outcome.store ⟨e.content.pkg, e.name, true⟩ Flags.none false)
      else
        Outcome.store ⟨pkgNameOf e.content, e.name, false⟩ (expectedFlags cfg.ck e.name)
          (parseErr (if (expectedFlags cfg.ck e.name).isClass || cfg.modeClass then .xgoClass else .xgo)
            e.content.kind) := by
  obtain ⟨hd, hu, hf, hr, ha⟩ := h
  unfold outcome UsesGoParser
  rw [C34_switch]
  have hsk : ¬(¬Recognised cfg.ck e.name ∨ AutogenGo e.name) :=
    fun h => h.elim (fun h1 => h1 hr) (fun h2 => ha h2)
  have hpass : (!underscore e.name && (!cfg.hasFilter || e.filterOk)) = true := by
    cases hh : cfg.hasFilter
    · simp [hu]
    · simp [hu, hf hh]
  simp only [hd, hsk, if_false, Bool.false_eq_true]
  by_cases hg : ext e.name = dotGo ∧ cfg.goAsXGo = false
  · simp only [hg, and_self, if_true, hpass]
  · simp only [hg, if_false, hpass, if_true, parserFor]

/-- Class files: everything that is not `.xgo/.gop/.go`. -/
theorem C34_isClass_iff (ck : ClassKindFn) (n : Name) :
    (expectedFlags ck n).isClass = true ↔ ¬PlainExt n := by
  unfold expectedFlags; split <;> simp_all [Flags.none]

/-- Normal `.gox` files: extension `.gox` and not claimed by the class-kind function. -/
theorem C34_isNormalGox_iff (ck : ClassKindFn) (n : Name) :
    (expectedFlags ck n).isNormalGox = true ↔ ext n = dotGox ∧ (ck n).2 = false := by
  unfold expectedFlags PlainExt
  by_cases h4 : ext n = dotGox
  · cases hk : (ck n).2 <;> simp [h4, hk, dotGox, dotXgo, dotGop, dotGo, Flags.none]
  · split <;> simp_all [Flags.none]

/-- Project files: a class file for which the class-kind function answers `isProj`. -/
theorem C34_isProj_iff (ck : ClassKindFn) (n : Name) :
    (expectedFlags ck n).isProj = true ↔ ¬PlainExt n ∧ (ck n).1 = true := by
  unfold expectedFlags; split <;> simp_all [Flags.none]

/-- With no `ClassKind` configured the default is used: `.spx` files are class files
(`main.spx` the project), `.gsh` and `.gmx` files are project files, nothing else. -/
theorem C34_default_classkind (n : Name) :
    ((defaultClassKind n).2 = true ↔ ext n = dotSpx ∨ ext n = dotGsh ∨ ext n = dotGmx) ∧
    ((defaultClassKind n).1 = true ↔ n = mainSpx ∨ ext n = dotGsh ∨ ext n = dotGmx) := by
  unfold defaultClassKind
  by_cases h1 : ext n = dotSpx
  · simp [h1, dotSpx, dotGsh, dotGmx]
  · by_cases h2 : ext n = dotGsh ∨ ext n = dotGmx
    · simp [h1, h2]
    · have hn : n ≠ mainSpx := by
        intro hn; apply h1; rw [hn]; decide
      simp only [not_or] at h2
      simp [h1, h2, hn]

/-- Translator tie: the hand-written `defaultClassKind` is the function denoted by the switch
table regenerated from parser/parser_gop.go on every run (a changed comparison, extension or
result changes the table and breaks this theorem; a form the translator does not know breaks
the translator). -/
theorem C34_defaultClassKind_is_source (n : Name) :
    defaultClassKind n = evalClassKindCases Generated.DirClassify.defaultClassKindCases n := by
  unfold defaultClassKind
  simp only [Generated.DirClassify.defaultClassKindCases, evalClassKindCases, ProjRule.eval,
    List.contains_cons, List.contains_nil, Bool.or_false, beq_iff_eq, Bool.or_eq_true]
  by_cases h1 : ext n = dotSpx
  · have : ext n = [0x2e, 0x73, 0x70, 0x78] := h1
    simp [h1, this, mainSpx, dotSpx]
  · have h1' : ¬ ext n = [0x2e, 0x73, 0x70, 0x78] := h1
    by_cases h2 : ext n = dotGsh ∨ ext n = dotGmx
    · have h2' : ext n = [0x2e, 0x67, 0x73, 0x68] ∨ ext n = [0x2e, 0x67, 0x6d, 0x78] := h2
      simp [h1, h1', h2, h2']
    · have h2' : ¬(ext n = [0x2e, 0x67, 0x73, 0x68] ∨ ext n = [0x2e, 0x67, 0x6d, 0x78]) := h2
      simp [h1, h1', h2, h2']

theorem C34_nil_classkind_is_default (cfg : Config) (h : cfg.classKind = none) :
    cfg.ck = defaultClassKind := by
  simp [Config.ck, h]

/-! ## C34: grouping (the fold over the listing) -/

theorem mem_upsert (k : Key) (v : Flags) (m : List (Key × Flags)) (k' : Key) (v' : Flags) :
    (k', v') ∈ upsert k v m ↔ ((k', v') ∈ m ∧ k' ≠ k) ∨ (k' = k ∧ v' = v) := by
  simp [upsert, List.mem_filter]

/-- The name stored in a slot is the entry's name. -/
theorem outcome_store_file {cfg : Config} {e : Entry} {k : Key} {f : Flags} {err : Bool}
    (h : outcome cfg e = .store k f err) : k.file = e.name := by
  unfold outcome at h
  split at h
  · cases h
  · split at h
    · cases h
    · split at h
      · split at h
        · cases h
        · cases h; rfl
      · cases h
    · split at h
      · cases h; rfl
      · cases h

theorem foldl_step_slots (cfg : Config) : ∀ (rest : List Entry) (acc : Result) (done : List Entry),
    ((done ++ rest).map Entry.name).Nodup →
    (∀ k f, (k, f) ∈ acc.slots ↔ ∃ e ∈ done, ∃ err, outcome cfg e = .store k f err) →
    ∀ k f, (k, f) ∈ (rest.foldl (step cfg) acc).slots ↔
      ∃ e ∈ done ++ rest, ∃ err, outcome cfg e = .store k f err
  | [], acc, done, _, inv => by simpa using inv
  | x :: rest, acc, done, nd, inv => by
    have nd' : (((done ++ [x]) ++ rest).map Entry.name).Nodup := by simpa using nd
    have := foldl_step_slots cfg rest (step cfg acc x) (done ++ [x]) nd'
    simp only [List.foldl_cons]
    have happ : done ++ x :: rest = (done ++ [x]) ++ rest := by simp
    rw [happ]
    apply this
    intro k f
    have hxnot : ∀ e ∈ done, e.name ≠ x.name := by
      intro e he hne
      simp only [List.map_append, List.map_cons, List.nodup_append, List.nodup_cons,
        List.mem_map, List.mem_cons] at nd
      have := nd.2.2 e.name ⟨e, he, rfl⟩ x.name (Or.inl rfl)
      exact this hne
    unfold step
    cases ho : outcome cfg x with
    | skipped =>
      simp only [inv, List.mem_append, List.mem_singleton]
      constructor
      · rintro ⟨e, he, err, h⟩; exact ⟨e, Or.inl he, err, h⟩
      · rintro ⟨e, he | he, err, h⟩
        · exact ⟨e, he, err, h⟩
        · subst he; rw [ho] at h; cases h
    | errOnly =>
      simp only [inv, List.mem_append, List.mem_singleton]
      constructor
      · rintro ⟨e, he, err, h⟩; exact ⟨e, Or.inl he, err, h⟩
      · rintro ⟨e, he | he, err, h⟩
        · exact ⟨e, he, err, h⟩
        · subst he; rw [ho] at h; cases h
    | store kx fx ex =>
      simp only [mem_upsert, inv, List.mem_append, List.mem_singleton]
      have hfile := outcome_store_file ho
      constructor
      · rintro (⟨⟨e, he, err, h⟩, _⟩ | ⟨hk, hf⟩)
        · exact ⟨e, Or.inl he, err, h⟩
        · exact ⟨x, Or.inr rfl, ex, by rw [ho, hk, hf]⟩
      · rintro ⟨e, he | he, err, h⟩
        · left
          refine ⟨⟨e, he, err, h⟩, ?_⟩
          intro hk
          have := outcome_store_file h
          apply hxnot e he
          rw [← this, hk, hfile]
        · right
          subst he; rw [ho] at h; cases h; exact ⟨rfl, rfl⟩

/-- Grouping: in a directory (distinct names) the package map holds exactly one slot for each
stored entry — under the package name of that entry's content, keyed by the entry's name,
with that entry's flags — and nothing else. -/
theorem C34_grouping (cfg : Config) (listing : List Entry)
    (nd : (listing.map Entry.name).Nodup) (k : Key) (f : Flags) :
    (k, f) ∈ (parseDir cfg listing).slots ↔
      ∃ e ∈ listing, ∃ err, outcome cfg e = .store k f err := by
  have := foldl_step_slots cfg listing ⟨[], false⟩ [] (by simpa using nd) (by simp)
  simpa [parseDir] using this k f

/-- Each file sits in exactly one slot (one package, one of `Files`/`GoFiles`, one flag set). -/
theorem C34_file_in_one_package (cfg : Config) (listing : List Entry)
    (nd : (listing.map Entry.name).Nodup) (k₁ k₂ : Key) (f₁ f₂ : Flags)
    (h₁ : (k₁, f₁) ∈ (parseDir cfg listing).slots) (h₂ : (k₂, f₂) ∈ (parseDir cfg listing).slots)
    (hfile : k₁.file = k₂.file) : k₁ = k₂ ∧ f₁ = f₂ := by
  obtain ⟨e₁, he₁, err₁, ho₁⟩ := (C34_grouping cfg listing nd k₁ f₁).mp h₁
  obtain ⟨e₂, he₂, err₂, ho₂⟩ := (C34_grouping cfg listing nd k₂ f₂).mp h₂
  have hn : e₁.name = e₂.name := by
    rw [← outcome_store_file ho₁, ← outcome_store_file ho₂, hfile]
  have : e₁ = e₂ := by
    clear ho₁ ho₂ h₁ h₂
    induction listing with
    | nil => cases he₁
    | cons x t ih =>
      simp only [List.map_cons, List.nodup_cons, List.mem_map, not_exists, not_and] at nd
      simp only [List.mem_cons] at he₁ he₂
      rcases he₁ with rfl | he₁ <;> rcases he₂ with rfl | he₂
      · rfl
      · exact absurd hn.symm (nd.1 e₂ he₂)
      · exact absurd hn (nd.1 e₁ he₁)
      · exact ih nd.2 he₁ he₂
  subst this
  rw [ho₁] at ho₂
  cases ho₂
  exact ⟨rfl, rfl⟩

theorem foldl_step_err (cfg : Config) : ∀ (rest : List Entry) (acc : Result),
    (rest.foldl (step cfg) acc).err = true ↔
      acc.err = true ∨ ∃ e ∈ rest, outcome cfg e = .errOnly ∨ ∃ k f, outcome cfg e = .store k f true
  | [], acc => by simp
  | x :: rest, acc => by
    simp only [List.foldl_cons, List.mem_cons, exists_eq_or_imp]
    rw [foldl_step_err cfg rest (step cfg acc x)]
    unfold step
    cases ho : outcome cfg x with
    | skipped => simp
    | errOnly => simp
    | store k f err => cases err <;> simp

/-- An error is reported exactly when some parsed file has a parse error. -/
theorem C34_error_iff (cfg : Config) (listing : List Entry) :
    (parseDir cfg listing).err = true ↔
      ∃ e ∈ listing, outcome cfg e = .errOnly ∨ ∃ k f, outcome cfg e = .store k f true := by
  simpa [parseDir] using foldl_step_err cfg listing ⟨[], false⟩

/-! ## C34: `ParseFSEntry` / `ParseFSEntries` -/

/-- A single entry is rejected with `ErrUnknownFileKind` exactly when its extension is not
recognised; otherwise its flags follow the same rule as in a directory. -/
theorem C34_entry_kind (ck : ClassKindFn) (n : Name) :
    classifyEntry ck n = if Recognised ck n then some (expectedFlags ck n) else none := by
  rw [classifyEntry_spec]
  unfold Recognised expectedFlags
  by_cases hp : PlainExt n
  · simp [hp]
  · by_cases h4 : ext n = dotGox
    · cases hk : (ck n).2 <;> simp [hp, h4, hk]
    · cases hk : (ck n).2 <;> simp [hp, h4, hk]

/-- Directory parsing and single-entry parsing classify a name the same way whenever the
directory loop keeps it for the XGo parser. -/
theorem C34_entry_agrees_with_dir (g : Bool) (ck : ClassKindFn) (n : Name) (f : Flags)
    (h : classifyDir g ck n = .xgoFile f) : classifyEntry ck n = some f := by
  rw [C34_switch] at h
  rw [C34_entry_kind]
  split at h
  · cases h
  · rename_i hs
    have hr : Recognised ck n := Classical.byContradiction (fun h => hs (Or.inl h))
    split at h
    · cases h
    · cases h; rw [if_pos hr]

theorem entriesLoop_ok (cfg : Config) : ∀ (files : List Entry) (acc : List (Key × Flags)),
    (∃ s, entriesLoop cfg files acc = .ok s) ↔
      ∀ e ∈ files, Recognised cfg.ck e.name ∧
        parseErr (parserFor cfg (expectedFlags cfg.ck e.name)) e.content.kind = false
  | [], acc => by simp [entriesLoop]
  | e :: rest, acc => by
    unfold entriesLoop
    rw [C34_entry_kind]
    by_cases hr : Recognised cfg.ck e.name
    · simp only [hr, if_true, List.mem_cons, forall_eq_or_imp, true_and]
      cases hp : parseErr (parserFor cfg (expectedFlags cfg.ck e.name)) e.content.kind
      · simp only [Bool.false_eq_true, if_false, true_and]
        exact entriesLoop_ok cfg rest _
      · simp
    · simp [hr]

/-- `ParseFSEntries` succeeds exactly when every listed file has a recognised extension and
parses without error (in class mode iff it is a class file). -/
theorem C34_entries_ok_iff (cfg : Config) (files : List Entry) :
    (∃ s, parseEntries cfg files = .ok s) ↔
      ∀ e ∈ files, Recognised cfg.ck e.name ∧
        parseErr (parserFor cfg (expectedFlags cfg.ck e.name)) e.content.kind = false :=
  entriesLoop_ok cfg files []

/-! ## Non-vacuity: concrete directories -/

def n_aXgo : Name := [0x61, 0x2e, 0x78, 0x67, 0x6f]                    -- "a.xgo"
def n_bGo : Name := [0x62, 0x2e, 0x67, 0x6f]                           -- "b.go"
def n_uGo : Name := [0x5f, 0x2e, 0x67, 0x6f]                           -- "_.go"
def n_autogen : Name := gopAutogen ++ dotGo                            -- "gop_autogen.go"
def n_cGox : Name := [0x63, 0x2e, 0x67, 0x6f, 0x78]                    -- "c.gox"
def n_txt : Name := [0x74, 0x2e, 0x74, 0x78, 0x74]                     -- "t.txt"
def pP : Name := [0x70]
def pQ : Name := [0x71]

def cfg0 : Config := ⟨false, false, false, none⟩
def ent (n p : Name) : Entry := ⟨n, false, true, ⟨p, .plain⟩⟩
def dir0 : List Entry :=
  [ent n_aXgo pP, ent n_bGo pQ, ent n_uGo pP, ent n_autogen pP, ent n_cGox pP, ent mainSpx pP,
   ent n_txt pP, ⟨pP, true, true, ⟨pP, .plain⟩⟩]

example : (dir0.map Entry.name).Nodup := by decide
example : parseDir cfg0 dir0 =
    ⟨[(⟨pP, n_aXgo, false⟩, ⟨false, false, false⟩), (⟨pQ, n_bGo, true⟩, ⟨false, false, false⟩),
      (⟨pP, n_cGox, false⟩, ⟨false, true, true⟩), (⟨pP, mainSpx, false⟩, ⟨true, true, false⟩)], false⟩ := by
  decide
example : Included cfg0 (ent n_cGox pP) := by
  refine ⟨rfl, rfl, (fun h => by cases h), Or.inr (Or.inl (by decide)), ?_⟩
  intro h; exact absurd h.1 (by decide)
example : ¬Included cfg0 (ent n_autogen pP) := by
  intro h; exact h.2.2.2.2 ⟨by decide, by decide⟩
example : parseEntries cfg0 [ent n_aXgo pP, ent n_txt pP] = .unknownKind := by decide
example : parseEntries cfg0 [ent n_autogen pP, ent n_uGo pQ] =
    .ok [(⟨pP, n_autogen, false⟩, Flags.none), (⟨pQ, n_uGo, false⟩, Flags.none)] := by decide

end GopModel.DirClassify
