/-
C01 — a valid Go program means the same when compiled as XGo.     PARTIAL (kernel only).

FULL STATEMENT (properties.jsonl): any well-typed, deterministic Go main package written in the Go
subset XGo claims to accept, saved as .xgo and compiled by the XGo compiler, builds and produces
the same stdout, exit status and panic value as the same source built by the Go toolchain
(documented deviations excluded).

The compiler (cl ≈ 7 kLoC + gogen, which lives outside /repo) is NOT modelled.  What is proved is
about the reference semantics `evalG` of a Go subset (Model/CompGo.lean) that the three-way run
of harness/cmd/c01 compares with real `go build` + run and with real XGo compile + build + run:
  * `C01_fuel_mono`        more fuel never changes a finished outcome;
  * `C01_eval_det`         any two finished evaluations of a program agree (whatever the fuel);
  * `C01_lower_id_partial` the model lowering of the Go subset (the walk that re-issues every node,
                           as cl does for Go constructs) is the identity, hence outcome-preserving.
These are nearly definitional: the weight of C01 is in the differential tie, which is search, not
proof.  `(a) = (b)` of the tie is the property's oracle on the implementation; `(a) = (c)`
validates `evalG`.
-/
import GopModel.Model.CompGo
namespace GopModel.CompGo

/-- A run that finished (did not run out of fuel) is unchanged by one more unit of fuel. -/
theorem run_succ (p : GoProg) : ∀ (n : Nat) (st : State) (r : Res),
    run n p st = r → r ≠ Res.timeout → run (n + 1) p st = r := by
  intro n
  induction n with
  | zero => intro st r h hr; simp [run] at h; exact absurd h.symm hr
  | succ n ih =>
    intro st r h hr
    rw [run] at h
    rw [run]
    cases hs : step p st with
    | cont st' =>
      rw [hs] at h
      simp only at h ⊢
      exact ih st' r h hr
    | halt r' =>
      rw [hs] at h
      simp only at h ⊢
      exact h

theorem run_mono (p : GoProg) (n m : Nat) (st : State) (r : Res)
    (h : run n p st = r) (hr : r ≠ Res.timeout) (hm : n ≤ m) : run m p st = r := by
  induction hm with
  | refl => exact h
  | step _ ih => exact run_succ p _ st r ih hr

/-- **Fuel monotonicity**: more fuel never changes a finished outcome (a result other than
`timeout`, including `stuck`). -/
theorem C01_fuel_mono (p : GoProg) (n m : Nat) (r : Res)
    (h : evalG n p = r) (hr : r ≠ Res.timeout) (hm : n ≤ m) : evalG m p = r :=
  run_mono p n m initState r h hr hm

/-- **Determinism**: two finished evaluations of the same program agree, whatever fuel each was
given (the outcome — stdout lines, exit status, panic text — is a function of the program). -/
theorem C01_eval_det (p : GoProg) (n m : Nat) (r r' : Res)
    (h : evalG n p = r) (h' : evalG m p = r') (hr : r ≠ Res.timeout) (hr' : r' ≠ Res.timeout) :
    r = r' := by
  rcases Nat.le_total n m with hnm | hmn
  · rw [← h', C01_fuel_mono p n m r h hr hnm]
  · rw [← h, C01_fuel_mono p m n r' h' hr' hmn]

/-! ### The lowering of the Go subset is the identity -/

mutual
  theorem lowerE_id : ∀ e : Expr, lowerE e = e
    | .int _ => rfl
    | .bool _ => rfl
    | .str _ => rfl
    | .var _ => rfl
    | .bin op a b => by rw [lowerE, lowerE_id a, lowerE_id b]
    | .un op a => by rw [lowerE, lowerE_id a]
    | .call f args => by rw [lowerE, lowerEs_id args]
    | .len a => by rw [lowerE, lowerE_id a]
    | .index a i => by rw [lowerE, lowerE_id a, lowerE_id i]
    | .sliceLit es => by rw [lowerE, lowerEs_id es]
    | .append a args => by rw [lowerE, lowerE_id a, lowerEs_id args]
    | .copy a => by rw [lowerE, lowerE_id a]
    | .sprint a => by rw [lowerE, lowerE_id a]
  theorem lowerEs_id : ∀ es : List Expr, lowerEs es = es
    | [] => rfl
    | e :: es => by rw [lowerEs, lowerE_id e, lowerEs_id es]
end

theorem lowerL_id : ∀ l : LHS, lowerL l = l
  | .var _ => rfl
  | .idx x i => by rw [lowerL, lowerE_id i]

theorem lowerLs_id : ∀ ls : List LHS, lowerLs ls = ls
  | [] => rfl
  | l :: ls => by rw [lowerLs, lowerL_id l, lowerLs_id ls]

theorem lowerOE_id : ∀ o : Option Expr, lowerOE o = o
  | none => rfl
  | some e => by rw [lowerOE, lowerE_id e]

mutual
  theorem lowerS_id : ∀ s : Stmt, lowerS s = s
    | .define xs es => by rw [lowerS, lowerEs_id es]
    | .assign ls es => by rw [lowerS, lowerLs_id ls, lowerEs_id es]
    | .opAssign l op e => by rw [lowerS, lowerL_id l, lowerE_id e]
    | .incDec l inc => by rw [lowerS, lowerL_id l]
    | .println es => by rw [lowerS, lowerEs_id es]
    | .exprCall f args => by rw [lowerS, lowerEs_id args]
    | .ifS init c t e => by rw [lowerS, lowerOS_id init, lowerE_id c, lowerSs_id t, lowerSs_id e]
    | .forS init c post body => by
      rw [lowerS, lowerOS_id init, lowerOE_id c, lowerOS_id post, lowerSs_id body]
    | .rangeS k v e body => by rw [lowerS, lowerE_id e, lowerSs_id body]
    | .switchS init tag cases dflt => by
      rw [lowerS, lowerOS_id init, lowerOE_id tag, lowerCs_id cases, lowerOSs_id dflt]
    | .brk => rfl
    | .cont => rfl
    | .ret es => by rw [lowerS, lowerEs_id es]
    | .block body => by rw [lowerS, lowerSs_id body]
    | .panicS e => by rw [lowerS, lowerE_id e]
    | .exit e => by rw [lowerS, lowerE_id e]
  theorem lowerSs_id : ∀ ss : List Stmt, lowerSs ss = ss
    | [] => rfl
    | s :: ss => by rw [lowerSs, lowerS_id s, lowerSs_id ss]
  theorem lowerOS_id : ∀ o : Option Stmt, lowerOS o = o
    | none => rfl
    | some s => by rw [lowerOS, lowerS_id s]
  theorem lowerOSs_id : ∀ o : Option (List Stmt), lowerOSs o = o
    | none => rfl
    | some ss => by rw [lowerOSs, lowerSs_id ss]
  theorem lowerCs_id : ∀ cs : List (List Expr × List Stmt), lowerCs cs = cs
    | [] => rfl
    | c :: cs => by rw [lowerCs, lowerC_id c, lowerCs_id cs]
  theorem lowerC_id : ∀ c : List Expr × List Stmt, lowerC c = c
    | (es, ss) => by rw [lowerC, lowerEs_id es, lowerSs_id ss]
end

theorem lowerFs_id : ∀ ds : List FuncDecl, lowerFs ds = ds
  | [] => rfl
  | d :: ds => by
    rw [lowerFs, lowerFs_id ds]
    simp [lowerF, lowerSs_id]

/-- **The model lowering of the Go subset is the identity**, hence outcome-preserving
(PARTIAL: about the model's lowering, not about cl + gogen). -/
theorem C01_lower_id_partial (p : GoProg) :
    lowerG p = p ∧ ∀ fuel, evalG fuel (lowerG p) = evalG fuel p := by
  have h : lowerG p = p := by
    cases p with
    | mk fs => simp [lowerG, lowerFs_id]
  exact ⟨h, fun fuel => by rw [h]⟩

/-! ### Non-vacuity: concrete programs evaluated by the kernel -/

/-- `func main() { x := 2; for i := 0; i < 3; i++ { x = x * x }; fmt.Println(x, "ok") }` -/
def demoLoop : GoProg := ⟨[⟨"main", [], 0, [
  .define ["x"] [.int 2],
  .forS (some (.define ["i"] [.int 0])) (some (.bin .lt (.var "i") (.int 3))) (some (.incDec (.var "i") true))
    [.assign [.var "x"] [.bin .mul (.var "x") (.var "x")]],
  .println [.var "x", .str "ok"]]⟩]⟩

example : evalG 200 demoLoop = .done ⟨["256 ok"], 0, none⟩ := by decide

/-- `func f(a int) (int, int) { return a + 1, a / 0 }` — a run-time panic with Go's text. -/
def demoPanic : GoProg := ⟨[
  ⟨"f", ["a"], 2, [.define ["z"] [.int 0], .ret [.bin .add (.var "a") (.int 1), .bin .div (.var "a") (.var "z")]]⟩,
  ⟨"main", [], 0, [.println [.str "start"], .define ["p", "q"] [.call "f" [.int 4]], .println [.var "p", .var "q"]]⟩]⟩

example : evalG 200 demoPanic =
    .done ⟨["start"], 2, some "runtime error: integer divide by zero"⟩ := by decide

/-- too little fuel: timeout, and then monotonicity says nothing (hypothesis `r ≠ timeout`) -/
example : evalG 10 demoLoop = .timeout := by decide

/-- closure-as-block with `return`, switch, os.Exit -/
def demoExit : GoProg := ⟨[⟨"main", [], 0, [
  .define ["s"] [.sliceLit [.int 1, .int 2]],
  .block [.assign [.idx "s" (.int 1)] [.int 7], .ret [], .println [.str "unreachable"]],
  .switchS none (some (.index (.var "s") (.int 1))) [([.int 1, .int 7], [.println [.var "s"]])] (some [.println [.str "d"]]),
  .exit (.int 3)]⟩]⟩

example : evalG 200 demoExit = .done ⟨["[1 7]"], 3, none⟩ := by decide

end GopModel.CompGo
