/-
C14 — valid Go files parse to the same tree with the XGo parser as with go/parser.

FULL STATEMENT (properties.jsonl): every Go source file that go/parser accepts and go/types
type-checks is accepted by the XGo parser, and the tree has the same shape, identifiers,
literals and operators as the go/parser tree.

The full statement is FALSE on the unchanged tree (recorded findings, harness/cmd/c14): the
command-style call heuristic reinterprets valid, non-gofmt Go (`a [0] = 1`, `get (1).Run()`,
`f (1)`, `ch <-v`), and the parser has no type-parameter declarations / type sets.

What is PROVED here (kernel), on Model/CmdAmbig.lean (the decision logic of
`parsePrimaryExpr` / `isCmd` / `checkCmd` / `parseStmt`, token sets regenerated from parser.go):
  * `C14_no_cmd_on_adjacent_partial`  a statement in gofmt-like layout (no depth-0 token that can
        end a callee is followed, after a gap, by a trigger token) never takes the command-call
        branch — so on such input the XGo-only production `CallExpr{NoParenEnd}` is unreachable;
  * `C14_gofmt_not_ambiguous`         lifted to sets of statements (`¬CmdAmbiguous`);
  * `C14_site_nonadjacent`            conversely every site is a depth-0 callee end followed by a
        gap and a trigger token (so gluing the two tokens removes it);
  * `C14_known_shapes_ambiguous`      the recorded deviations are classified as sites (negation of
        the full statement on concrete inputs that the harness replays on the real parsers).
PARTIAL: the rest of the grammar is not modelled; equality of the trees is established by the
structural comparison of the two real parsers (correspondence / oracle), not by a theorem.
-/
import GopModel.Model.CmdAmbig
namespace GopModel.CmdAmbig
open GopModel.Generated.ParserCmd

theorem isOpen_not_close {k : String} (h : isOpen k = true) : isClose k = false := by
  simp only [isOpen, Bool.or_eq_true, beq_iff_eq] at h
  rcases h with (h | h) | h <;> subst h <;> decide

theorem newDepth_open {d : Nat} {k : String} (h : isOpen k = true) : newDepth d k = d + 1 := by
  simp [newDepth, h]

theorem newDepth_close {d : Nat} {k : String} (h1 : isOpen k = false) (h2 : isClose k = true) :
    newDepth d k = d - 1 := by
  simp [newDepth, h1, h2]

theorem newDepth_other {d : Nat} {k : String} (h1 : isOpen k = false) (h2 : isClose k = false) :
    newDepth d k = d := by
  simp [newDepth, h1, h2]

theorem selectorLike_endsPrimary {k : String} (h : selectorLike k = true) : endsPrimary k = true := by
  simp only [selectorLike, Bool.or_eq_true, beq_iff_eq] at h
  simp only [endsPrimary, Bool.or_eq_true, beq_iff_eq]
  rcases h with h | h
  · exact Or.inl (Or.inl (Or.inl (Or.inl h)))
  · exact Or.inr h

/-- Invariant of `walk`: whenever `isCmd` could hold, the previous token can end a callee. -/
def StInv : St → Tok → Prop
  | .chain true, a => endsPrimary a.kind = true
  | _, _ => True

theorem okTriple_no_trigger {a b : Tok} {c : Option Tok} (hok : okTriple (a, b, c) = true)
    (hp : endsPrimary a.kind = true) (hgap : (a.stop != b.pos) = true) : trigger b c = false := by
  simp only [okTriple, hp, hgap, Bool.true_and, Bool.not_eq_true'] at hok
  exact hok

/-- Main lemma: if every depth-0 triple is in gofmt-like layout, `walk` never reports a site. -/
theorem walk_no_site : ∀ (l : List Tok) (st : St) (a : Tok),
    StInv st a → (∀ tr ∈ triples st.depth a l, okTriple tr = true) →
    ∀ p k, walk st a l ≠ .site p k := by
  intro l
  induction l with
  | nil =>
    intro st a _ _ p k
    cases st <;> simp [walk]
  | cons b rest ih =>
    intro st a hinv hok p k
    have hrest : ∀ tr ∈ triples (newDepth st.depth b.kind) b rest, okTriple tr = true := by
      intro tr htr
      apply hok
      simp only [triples, List.mem_append]
      exact Or.inr htr
    cases st with
    | chain cm =>
      have hhead : okTriple (a, b, rest.head?) = true := by
        apply hok
        simp [triples, St.depth]
      simp only [St.depth] at hrest
      -- no site can be produced here: isCmd ∧ trigger is excluded by the layout
      have hnotrig : (cm && (a.stop != b.pos)) = true → trigger b rest.head? = false := by
        intro hc
        simp only [Bool.and_eq_true] at hc
        obtain ⟨hcm, hgap⟩ := hc
        subst hcm
        exact okTriple_no_trigger hhead hinv hgap
      simp only [walk]
      by_cases hper : (b.kind == "PERIOD") = true
      · simp only [hper, if_true]
        have ho : isOpen b.kind = false := by simp only [beq_iff_eq] at hper; rw [hper]; decide
        have hc : isClose b.kind = false := by simp only [beq_iff_eq] at hper; rw [hper]; decide
        rw [newDepth_other ho hc] at hrest
        exact ih .afterPeriod b trivial hrest p k
      · simp only [hper, Bool.false_eq_true, if_false]
        by_cases hop : isOpen b.kind = true
        · simp only [hop, if_true]
          by_cases hcmd : (cm && (a.stop != b.pos) && primaryCmdCases.contains b.kind) = true
          · exfalso
            simp only [Bool.and_eq_true] at hcmd
            have := hnotrig (by simp only [Bool.and_eq_true]; exact hcmd.1)
            simp only [trigger, Bool.or_eq_false_iff] at this
            rw [hcmd.2] at this
            exact absurd this.1 (by decide)
          · simp only [hcmd, Bool.false_eq_true, if_false]
            rw [newDepth_open hop] at hrest
            exact ih (.inBr 1) b trivial hrest p k
        · simp only [hop, Bool.false_eq_true, if_false]
          by_cases hcl : isClose b.kind = true
          · simp [hcl]
          · simp only [hcl, Bool.false_eq_true, if_false]
            have ho' : isOpen b.kind = false := by simpa using hop
            have hc' : isClose b.kind = false := by simpa using hcl
            rw [newDepth_other ho' hc'] at hrest
            by_cases hnot : (b.kind == "NOT") = true
            · simp only [hnot, if_true]
              by_cases hcmd : (cm && (a.stop != b.pos) && primaryCmdCases.contains b.kind) = true
              · exfalso
                simp only [Bool.and_eq_true] at hcmd
                have := hnotrig (by simp only [Bool.and_eq_true]; exact hcmd.1)
                simp only [trigger, Bool.or_eq_false_iff] at this
                rw [hcmd.2] at this
                exact absurd this.1 (by decide)
              · simp only [hcmd, Bool.false_eq_true, if_false]
                refine ih (.chain true) b ?_ hrest p k
                simp only [StInv, endsPrimary, Bool.or_eq_true]
                exact Or.inl (Or.inl (Or.inr hnot))
            · simp only [hnot, Bool.false_eq_true, if_false]
              by_cases hq : (b.kind == "QUESTION") = true
              · simp only [hq, if_true]
                refine ih (.chain true) b ?_ hrest p k
                simp only [StInv, endsPrimary, Bool.or_eq_true]
                exact Or.inl (Or.inr hq)
              · simp only [hq, Bool.false_eq_true, if_false]
                by_cases hcmd : (cm && (a.stop != b.pos) && checkCmd b rest.head?) = true
                · exfalso
                  simp only [Bool.and_eq_true] at hcmd
                  have := hnotrig (by simp only [Bool.and_eq_true]; exact hcmd.1)
                  simp only [trigger, Bool.or_eq_false_iff] at this
                  rw [hcmd.2] at this
                  exact absurd this.2 (by decide)
                · simp [hcmd]
    | afterPeriod =>
      simp only [St.depth] at hrest
      simp only [walk]
      by_cases hop : isOpen b.kind = true
      · simp only [hop, if_true]
        by_cases hlp : (b.kind == "LPAREN") = true
        · simp only [hlp, if_true]
          rw [newDepth_open hop] at hrest
          exact ih (.inBr 1) b trivial hrest p k
        · simp [hlp]
      · simp only [hop, Bool.false_eq_true, if_false]
        by_cases hcl : isClose b.kind = true
        · simp [hcl]
        · simp only [hcl, Bool.false_eq_true, if_false]
          by_cases hsel : selectorLike b.kind = true
          · simp only [hsel, if_true]
            have ho' : isOpen b.kind = false := by simpa using hop
            have hc' : isClose b.kind = false := by simpa using hcl
            rw [newDepth_other ho' hc'] at hrest
            exact ih (.chain true) b (selectorLike_endsPrimary hsel) hrest p k
          · simp [hsel]
    | inBr d =>
      simp only [St.depth] at hrest
      simp only [walk]
      by_cases hop : isOpen b.kind = true
      · simp only [hop, if_true]
        rw [newDepth_open hop] at hrest
        exact ih (.inBr (d + 1)) b trivial hrest p k
      · simp only [hop, Bool.false_eq_true, if_false]
        have ho' : isOpen b.kind = false := by simpa using hop
        by_cases hcl : isClose b.kind = true
        · simp only [hcl, if_true]
          rw [newDepth_close ho' hcl] at hrest
          by_cases hd : d ≤ 1
          · simp only [hd, if_true]
            have : d - 1 = 0 := by omega
            rw [this] at hrest
            exact ih (.chain false) b trivial hrest p k
          · simp only [hd, if_false]
            exact ih (.inBr (d - 1)) b trivial hrest p k
        · simp only [hcl, Bool.false_eq_true, if_false]
          have hc' : isClose b.kind = false := by simpa using hcl
          rw [newDepth_other ho' hc'] at hrest
          exact ih (.inBr d) b trivial hrest p k

/-- If every `(` `[` `{` `!` / operand start / glued unary operator that follows a depth-0
identifier-like token of the statement is adjacent to it (gofmt layout), the command-call branch
of `parsePrimaryExpr` is never taken, whatever the statement context.
PARTIAL: says nothing about the rest of the grammar; `outside` results (a `map[...]` literal at
statement start, malformed selectors) are not sites but are not covered by the model either. -/
theorem C14_no_cmd_on_adjacent_partial (allow : Bool) (toks : List Tok) (h : GofmtLayout toks) :
    (cmdSite allow toks).isSite = false := by
  cases toks with
  | nil => rfl
  | cons t rest =>
    simp only [GofmtLayout] at h
    have hw : ∀ (hp : endsPrimary t.kind = true), (walk (.chain true) t rest).isSite = false := by
      intro hp
      have := walk_no_site rest (.chain true) t hp h
      cases hres : walk (.chain true) t rest with
      | site p k => exact absurd hres (this p k)
      | noSite => rfl
      | outside => rfl
    simp only [cmdSite]
    cases allow
    · rfl
    · simp only [Bool.not_true, Bool.false_eq_true, if_false]
      split
      · rfl
      · split
        · rename_i hid
          have hp : endsPrimary t.kind = true := by
            simp only [endsPrimary, Bool.or_eq_true]; exact Or.inl (Or.inl (Or.inl (Or.inl hid)))
          cases rest with
          | nil => rfl
          | cons n r => simp only; split <;> first | rfl | exact hw hp
        · split
          · rename_i hm
            have hp : endsPrimary t.kind = true := by
              simp only [endsPrimary, Bool.or_eq_true]; exact Or.inl (Or.inl (Or.inl (Or.inr hm)))
            cases rest with
            | nil => rfl
            | cons n r => simp only; split <;> first | rfl | exact hw hp
          · rfl

/-- Statements in gofmt-like layout are never command-ambiguous. -/
theorem C14_gofmt_not_ambiguous (stmts : List (Bool × List Tok))
    (h : ∀ s ∈ stmts, GofmtLayout s.2) : ¬ CmdAmbiguous stmts := by
  rintro ⟨s, hs, hsite⟩
  rw [C14_no_cmd_on_adjacent_partial s.1 s.2 (h s hs)] at hsite
  exact absurd hsite (by decide)

/-- Soundness of sites: a site reported by `walk` is the middle token of a depth-0 triple whose
first token can end a callee, is separated from it by a gap, and is a trigger. -/
theorem walk_site_triple : ∀ (l : List Tok) (st : St) (a : Tok) (p : Nat) (k : String),
    StInv st a → walk st a l = .site p k →
    ∃ tr ∈ triples st.depth a l, tr.2.1.pos = p ∧ tr.2.1.kind = k ∧ okTriple tr = false := by
  intro l
  induction l with
  | nil => intro st a p k _ h; cases st <;> simp [walk] at h
  | cons b rest ih =>
    intro st a p k hinv h
    have lift : ∀ {st' : St}, StInv st' b → st'.depth = newDepth st.depth b.kind →
        walk st' b rest = .site p k →
        ∃ tr ∈ triples st.depth a (b :: rest), tr.2.1.pos = p ∧ tr.2.1.kind = k ∧ okTriple tr = false := by
      intro st' hinv' hd hw
      obtain ⟨tr, hmem, hrest⟩ := ih st' b p k hinv' hw
      refine ⟨tr, ?_, hrest⟩
      simp only [triples, List.mem_append]
      right; rw [← hd]; exact hmem
    have bad : ∀ (cm : Bool), st = .chain cm → (cm && (a.stop != b.pos)) = true →
        trigger b rest.head? = true → b.pos = p → b.kind = k →
        ∃ tr ∈ triples st.depth a (b :: rest), tr.2.1.pos = p ∧ tr.2.1.kind = k ∧ okTriple tr = false := by
      intro cm hst hc htr hp hk
      subst hst
      simp only [Bool.and_eq_true] at hc
      obtain ⟨hcm, hgap⟩ := hc
      subst hcm
      refine ⟨(a, b, rest.head?), by simp [triples, St.depth], hp, hk, ?_⟩
      simp only [StInv] at hinv
      simp [okTriple, hinv, hgap, htr]
    cases st with
    | chain cm =>
      simp only [walk] at h
      by_cases hper : (b.kind == "PERIOD") = true
      · simp only [hper, if_true] at h
        have ho : isOpen b.kind = false := by simp only [beq_iff_eq] at hper; rw [hper]; decide
        have hc : isClose b.kind = false := by simp only [beq_iff_eq] at hper; rw [hper]; decide
        exact lift (st' := .afterPeriod) trivial (by simp [St.depth, newDepth_other ho hc]) h
      · simp only [hper, Bool.false_eq_true, if_false] at h
        by_cases hop : isOpen b.kind = true
        · simp only [hop, if_true] at h
          by_cases hcmd : (cm && (a.stop != b.pos) && primaryCmdCases.contains b.kind) = true
          · simp only [hcmd, if_true, Res.site.injEq] at h
            simp only [Bool.and_eq_true] at hcmd
            exact bad cm rfl (by simp only [Bool.and_eq_true]; exact hcmd.1)
              (by unfold trigger; rw [hcmd.2]; rfl) h.1 h.2
          · simp only [hcmd, Bool.false_eq_true, if_false] at h
            exact lift (st' := .inBr 1) trivial (by simp [St.depth, newDepth_open hop]) h
        · simp only [hop, Bool.false_eq_true, if_false] at h
          by_cases hcl : isClose b.kind = true
          · simp [hcl] at h
          · simp only [hcl, Bool.false_eq_true, if_false] at h
            have ho' : isOpen b.kind = false := by simpa using hop
            have hc' : isClose b.kind = false := by simpa using hcl
            by_cases hnot : (b.kind == "NOT") = true
            · simp only [hnot, if_true] at h
              by_cases hcmd : (cm && (a.stop != b.pos) && primaryCmdCases.contains b.kind) = true
              · simp only [hcmd, if_true, Res.site.injEq] at h
                simp only [Bool.and_eq_true] at hcmd
                exact bad cm rfl (by simp only [Bool.and_eq_true]; exact hcmd.1)
                  (by unfold trigger; rw [hcmd.2]; rfl) h.1 h.2
              · simp only [hcmd, Bool.false_eq_true, if_false] at h
                refine lift (st' := .chain true) ?_ (by simp [St.depth, newDepth_other ho' hc']) h
                simp only [StInv, endsPrimary, Bool.or_eq_true]
                exact Or.inl (Or.inl (Or.inr hnot))
            · simp only [hnot, Bool.false_eq_true, if_false] at h
              by_cases hq : (b.kind == "QUESTION") = true
              · simp only [hq, if_true] at h
                refine lift (st' := .chain true) ?_ (by simp [St.depth, newDepth_other ho' hc']) h
                simp only [StInv, endsPrimary, Bool.or_eq_true]
                exact Or.inl (Or.inr hq)
              · simp only [hq, Bool.false_eq_true, if_false] at h
                by_cases hcmd : (cm && (a.stop != b.pos) && checkCmd b rest.head?) = true
                · simp only [hcmd, if_true, Res.site.injEq] at h
                  simp only [Bool.and_eq_true] at hcmd
                  exact bad cm rfl (by simp only [Bool.and_eq_true]; exact hcmd.1)
                    (by simp [trigger, hcmd.2]) h.1 h.2
                · simp [hcmd] at h
    | afterPeriod =>
      simp only [walk] at h
      by_cases hop : isOpen b.kind = true
      · simp only [hop, if_true] at h
        by_cases hlp : (b.kind == "LPAREN") = true
        · simp only [hlp, if_true] at h
          exact lift (st' := .inBr 1) trivial (by simp [St.depth, newDepth_open hop]) h
        · simp [hlp] at h
      · simp only [hop, Bool.false_eq_true, if_false] at h
        by_cases hcl : isClose b.kind = true
        · simp [hcl] at h
        · simp only [hcl, Bool.false_eq_true, if_false] at h
          by_cases hsel : selectorLike b.kind = true
          · simp only [hsel, if_true] at h
            have ho' : isOpen b.kind = false := by simpa using hop
            have hc' : isClose b.kind = false := by simpa using hcl
            exact lift (st' := .chain true) (selectorLike_endsPrimary hsel)
              (by simp [St.depth, newDepth_other ho' hc']) h
          · simp [hsel] at h
    | inBr d =>
      simp only [walk] at h
      by_cases hop : isOpen b.kind = true
      · simp only [hop, if_true] at h
        exact lift (st' := .inBr (d + 1)) trivial (by simp [St.depth, newDepth_open hop]) h
      · simp only [hop, Bool.false_eq_true, if_false] at h
        have ho' : isOpen b.kind = false := by simpa using hop
        by_cases hcl : isClose b.kind = true
        · simp only [hcl, if_true] at h
          by_cases hd : d ≤ 1
          · simp only [hd, if_true] at h
            exact lift (st' := .chain false) trivial
              (by simp only [St.depth, newDepth_close ho' hcl]; omega) h
          · simp only [hd, if_false] at h
            exact lift (st' := .inBr (d - 1)) trivial (by simp [St.depth, newDepth_close ho' hcl]) h
        · simp only [hcl, Bool.false_eq_true, if_false] at h
          have hc' : isClose b.kind = false := by simpa using hcl
          exact lift (st' := .inBr d) trivial (by simp [St.depth, newDepth_other ho' hc']) h

/-- Every site of a statement is a non-adjacent trigger after a depth-0 callee end: the statement
is then NOT in gofmt-like layout (the converse of `C14_no_cmd_on_adjacent_partial`), and making
the two tokens adjacent removes exactly this cause. -/
theorem C14_site_nonadjacent (allow : Bool) (toks : List Tok) (p : Nat) (k : String)
    (h : cmdSite allow toks = .site p k) : ¬ GofmtLayout toks := by
  intro hg
  have := C14_no_cmd_on_adjacent_partial allow toks hg
  rw [h] at this
  simp [Res.isSite] at this

/-! ## the recorded deviations are classified as sites (and gofmt'd variants are not) -/

def tk (k : String) (p e : Nat) : Tok := ⟨k, p, e⟩

/-- `a [0] = 1` -/
def stmtIndexBlank : List Tok :=
  [tk "IDENT" 0 1, tk "LBRACK" 2 3, tk "INT" 3 4, tk "RBRACK" 4 5, tk "ASSIGN" 6 7, tk "INT" 8 9,
   tk "SEMICOLON" 9 9, tk "RBRACE" 10 11]
/-- `get (1).Run()` -/
def stmtCallBlank : List Tok :=
  [tk "IDENT" 0 3, tk "LPAREN" 4 5, tk "INT" 5 6, tk "RPAREN" 6 7, tk "PERIOD" 7 8, tk "IDENT" 8 11,
   tk "LPAREN" 11 12, tk "RPAREN" 12 13, tk "SEMICOLON" 13 13, tk "RBRACE" 14 15]
/-- `f (1)` -/
def stmtParenArg : List Tok :=
  [tk "IDENT" 0 1, tk "LPAREN" 2 3, tk "INT" 3 4, tk "RPAREN" 4 5, tk "SEMICOLON" 5 5, tk "RBRACE" 6 7]
/-- `ch <-v` -/
def stmtSendGlued : List Tok :=
  [tk "IDENT" 0 2, tk "ARROW" 3 5, tk "IDENT" 5 6, tk "SEMICOLON" 6 6, tk "RBRACE" 7 8]
/-- `a.b.c (1)` -/
def stmtSelBlank : List Tok :=
  [tk "IDENT" 0 1, tk "PERIOD" 1 2, tk "IDENT" 2 3, tk "PERIOD" 3 4, tk "IDENT" 4 5, tk "LPAREN" 6 7,
   tk "INT" 7 8, tk "RPAREN" 8 9, tk "SEMICOLON" 9 9]
/-- `a[0] = f (1)` (gofmt at depth 0 of the first primary; the blank is in the right operand) -/
def stmtRhsBlank : List Tok :=
  [tk "IDENT" 0 1, tk "LBRACK" 1 2, tk "INT" 2 3, tk "RBRACK" 3 4, tk "ASSIGN" 5 6, tk "IDENT" 7 8,
   tk "LPAREN" 9 10, tk "INT" 10 11, tk "RPAREN" 11 12, tk "SEMICOLON" 12 12]
/-- `ch <- v` (gofmt) -/
def stmtSendFmt : List Tok :=
  [tk "IDENT" 0 2, tk "ARROW" 3 5, tk "IDENT" 6 7, tk "SEMICOLON" 7 7, tk "RBRACE" 8 9]
/-- `get(1).Run()` (gofmt) -/
def stmtCallFmt : List Tok :=
  [tk "IDENT" 0 3, tk "LPAREN" 3 4, tk "INT" 4 5, tk "RPAREN" 5 6, tk "PERIOD" 6 7, tk "IDENT" 7 10,
   tk "LPAREN" 10 11, tk "RPAREN" 11 12, tk "SEMICOLON" 12 12, tk "RBRACE" 13 14]

/-- The negation of the full statement, on concrete valid Go statements (replayed on the real
parsers by harness/cmd/c14: `fixed` inputs, findings cmd-lbrack / cmd-lparen / cmd-glued-unary). -/
theorem C14_known_shapes_ambiguous :
    cmdSite true stmtIndexBlank = .site 2 "LBRACK" ∧
    cmdSite true stmtCallBlank = .site 4 "LPAREN" ∧
    cmdSite true stmtParenArg = .site 2 "LPAREN" ∧
    cmdSite true stmtSendGlued = .site 3 "ARROW" ∧
    cmdSite true stmtSelBlank = .site 6 "LPAREN" ∧
    CmdAmbiguous [(true, stmtCallFmt), (true, stmtParenArg)] := by
  refine ⟨by decide, by decide, by decide, by decide, by decide, by decide⟩

/-! Non-vacuity: statements that satisfy the hypothesis, and the header context. -/
example : GofmtLayout stmtSendFmt := by decide
example : GofmtLayout stmtCallFmt := by decide
example : cmdSite true stmtCallFmt = .noSite := by decide
example : ¬ GofmtLayout stmtParenArg := by decide
-- a blank inside the right-hand side is not at a callee position of the first primary, but the
-- flat hypothesis is about all depth-0 triples, so it is (soundly) more demanding than needed:
example : cmdSite true stmtRhsBlank = .noSite ∧ ¬ GofmtLayout stmtRhsBlank := by decide
-- in an if/for/switch header nothing is a command call
example : cmdSite false stmtParenArg = .noSite := by decide
example : ¬ CmdAmbiguous [(true, stmtCallFmt), (false, stmtParenArg), (true, stmtSendFmt)] := by decide

end GopModel.CmdAmbig
