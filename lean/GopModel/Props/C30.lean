/-
C30 — TPL result helpers fold lists left to right.

Theorems about the model (Model/TplHelpers.lean) of `List`, `ListOp`, `RangeOp`, `BinaryOpNR/R`,
`BinaryExprNR/R` of tpl/tpl.go on the result structure of `R % sep`
(`[r₀, [[s₁, r₁], …, [sₖ, rₖ]]]`, see C29_list_shape), and about the README calculator.
-/
import GopModel.Model.TplHelpers
import GopModel.Props.C29
namespace GopModel.Tpl

variable {α : Type}

/-- The result structure of `R % sep`: first `R` result, then the `(sep, R)` pairs. -/
def mkList (r0 : V α) (pairs : List (V α × V α)) : List (V α) :=
  [r0, .list (pairs.map fun p => .list [p.1, p.2])]

theorem mapSeconds_pairs {β : Type} (f : V α → β) (pairs : List (V α × V α)) :
    mapSeconds f (pairs.map fun p => .list [p.1, p.2]) = .ok (pairs.map fun p => f p.2) := by
  induction pairs with
  | nil => rfl
  | cons p rest ih => simp [mapSeconds, second, ih]

/-- `ListOp` maps `fn` over the `R` results in source order. -/
theorem C30_listOp_map {β : Type} (f : V α → β) (r0 : V α) (pairs : List (V α × V α)) :
    listOp f (mkList r0 pairs) = .ok ((r0 :: pairs.map (·.2)).map f) := by
  simp [mkList, listOp, mapSeconds_pairs, List.map_map, Function.comp_def]

/-- `List` returns the `R` results in source order (separators dropped). -/
theorem C30_list_of (r0 : V α) (pairs : List (V α × V α)) :
    listOf (mkList r0 pairs) = .ok (r0 :: pairs.map (·.2)) := by
  simp [listOf, C30_listOp_map]

theorem rangeSeconds_pairs (pairs : List (V α × V α)) :
    rangeSeconds (pairs.map fun p => .list [p.1, p.2]) = (pairs.map (·.2), false) := by
  induction pairs with
  | nil => rfl
  | cons p rest ih => simp [rangeSeconds, second, ih]

/-- `RangeOp` visits the `R` results in source order, each once. -/
theorem C30_rangeOp_order (r0 : V α) (pairs : List (V α × V α)) :
    rangeOp (mkList r0 pairs) = (r0 :: pairs.map (·.2), false) := by
  simp [mkList, rangeOp, rangeSeconds_pairs]

/-- `(op token, operand)` pairs as they appear in the result of `X % op`. -/
def opPairs (ops : List (Nat × V α)) : List (V α × V α) := ops.map fun p => (.tok p.1, p.2)

theorem foldOps_pairs (fn : Nat → V α → V α → V α) (ops : List (Nat × V α)) (acc : V α) :
    foldOps fn acc ((opPairs ops).map fun p => .list [p.1, p.2]) =
      .ok (ops.foldl (fun a p => fn p.1 a p.2) acc) := by
  induction ops generalizing acc with
  | nil => rfl
  | cons p rest ih =>
    simp only [opPairs, List.map_cons, foldOps, opAndY, List.foldl_cons]
    simpa [opPairs] using ih (fn p.1 acc p.2)

/-- `BinaryOp(false, …)`: a left fold with the separators in order:
`fn(opₖ, … fn(op₂, fn(op₁, x₀, x₁), x₂) …, xₖ)`. -/
theorem C30_binaryOpNR_foldl (fn : Nat → V α → V α → V α) (x0 : V α) (ops : List (Nat × V α)) :
    binaryOpNR fn (mkList x0 (opPairs ops)) = .ok (ops.foldl (fun a p => fn p.1 a p.2) x0) := by
  simp only [mkList, binaryOpNR]
  exact foldOps_pairs fn ops x0

/-- How `BinaryOpR` treats an operand: a list is folded recursively, anything else is kept. -/
def evalOperand (fn : Nat → V α → V α → V α) (fuel : Nat) : V α → HRes (V α) :=
  operandWith (binaryOpR fn fuel) HRes.ok

theorem binaryOpR_succ (fn : Nat → V α → V α → V α) (f : Nat) (inp : List (V α)) :
    binaryOpR fn (f + 1) inp =
      match inp with
      | [] => .panic
      | x :: rest =>
        match evalOperand fn f x with
        | .ok x' =>
          match rest with
          | .list next :: _ => foldOpsR (evalOperand fn f) fn x' next
          | _ => .panic
        | .panic => .panic
        | .fuel => .fuel := by
  cases inp <;> rfl

/-- Operands with their evaluated form: `(op, y, y')`. -/
def rawOps (ops : List (Nat × V α × V α)) : List (Nat × V α) := ops.map fun t => (t.1, t.2.1)
def evOps (ops : List (Nat × V α × V α)) : List (Nat × V α) := ops.map fun t => (t.1, t.2.2)

theorem foldOpsR_pairs (operand : V α → HRes (V α)) (fn : Nat → V α → V α → V α) :
    ∀ (ops : List (Nat × V α × V α)) (acc : V α),
      (∀ t ∈ ops, operand t.2.1 = .ok t.2.2) →
      foldOpsR operand fn acc ((opPairs (rawOps ops)).map fun p => .list [p.1, p.2]) =
        .ok ((evOps ops).foldl (fun a p => fn p.1 a p.2) acc) := by
  intro ops
  induction ops with
  | nil => intro acc _; rfl
  | cons t rest ih =>
    intro acc h
    have ht := h t (by simp)
    simp only [rawOps, evOps, opPairs, List.map_cons, foldOpsR, opAndY, ht, List.foldl_cons]
    simpa [rawOps, evOps, opPairs] using ih (fn t.1 acc t.2.2) (fun t' ht' => h t' (by simp [ht']))

/-- `BinaryOp(true, …)`: the same left fold, after evaluating every operand that is itself a
list (the result of a nested `X % op`) recursively (`ops`: operator, operand, evaluated operand). -/
theorem C30_binaryOpR_foldl_nested (fn : Nat → V α → V α → V α) (f : Nat) (x0 x0' : V α)
    (ops : List (Nat × V α × V α))
    (hx : evalOperand fn f x0 = .ok x0')
    (hops : ∀ t ∈ ops, evalOperand fn f t.2.1 = .ok t.2.2) :
    binaryOpR fn (f + 1) (mkList x0 (opPairs (rawOps ops))) =
      .ok ((evOps ops).foldl (fun a p => fn p.1 a p.2) x0') := by
  rw [binaryOpR_succ]
  simp only [mkList, hx]
  exact foldOpsR_pairs _ fn ops x0' hops

theorem foldExprs_pairs (ops : List (Nat × E)) (acc : E) :
    foldExprs acc ((opPairs (ops.map fun p => (p.1, V.leaf p.2))).map fun p => .list [p.1, p.2]) =
      .ok (ops.foldl (fun a p => E.bin a p.1 p.2) acc) := by
  induction ops generalizing acc with
  | nil => rfl
  | cons p rest ih =>
    simp only [opPairs, List.map_cons, foldExprs, asExpr, List.foldl_cons]
    simpa [opPairs] using ih (E.bin acc p.1 p.2)

/-- `BinaryExpr(false, …)` builds the left-associative tree
`((x₀ op₁ x₁) op₂ x₂) … opₖ xₖ`, operators in order. -/
theorem C30_binaryExpr_leftassoc (e0 : E) (ops : List (Nat × E)) :
    binaryExprNR (mkList (.leaf e0) (opPairs (ops.map fun p => (p.1, V.leaf p.2)))) =
      .ok (ops.foldl (fun a p => E.bin a p.1 p.2) e0) := by
  simp only [mkList, binaryExprNR, asExpr]
  exact foldExprs_pairs ops e0

/-- Operand of `BinaryExprR`. -/
def evalExprOperand (fuel : Nat) : V E → HRes E := operandWith (binaryExprR fuel) asExpr

theorem binaryExprR_succ (f : Nat) (inp : List (V E)) :
    binaryExprR (f + 1) inp =
      match inp with
      | [] => .panic
      | x :: rest =>
        match evalExprOperand f x with
        | .ok e =>
          match rest with
          | .list next :: _ => foldExprsR (evalExprOperand f) e next
          | _ => .panic
        | .panic => .panic
        | .fuel => .fuel := by
  cases inp <;> rfl

theorem foldExprsR_pairs (operand : V E → HRes E) :
    ∀ (ops : List (Nat × V E × E)) (acc : E),
      (∀ t ∈ ops, operand t.2.1 = .ok t.2.2) →
      foldExprsR operand acc ((opPairs (ops.map fun t => (t.1, t.2.1))).map fun p => .list [p.1, p.2]) =
        .ok ((ops.map fun t => (t.1, t.2.2)).foldl (fun a p => E.bin a p.1 p.2) acc) := by
  intro ops
  induction ops with
  | nil => intro acc _; rfl
  | cons t rest ih =>
    intro acc h
    have ht := h t (by simp)
    simp only [opPairs, List.map_cons, foldExprsR, ht, List.foldl_cons]
    simpa [opPairs] using ih (E.bin acc t.1 t.2.2) (fun t' ht' => h t' (by simp [ht']))

/-- `BinaryExpr(true, …)`: left-associative tree over recursively built operands
(`ops`: operator, operand, the expression built for the operand). -/
theorem C30_binaryExprR_leftassoc_nested (f : Nat) (x0 : V E) (e0 : E) (ops : List (Nat × V E × E))
    (hx : evalExprOperand f x0 = .ok e0)
    (hops : ∀ t ∈ ops, evalExprOperand f t.2.1 = .ok t.2.2) :
    binaryExprR (f + 1) (mkList x0 (opPairs (ops.map fun t => (t.1, t.2.1)))) =
      .ok ((ops.map fun t => (t.1, t.2.2)).foldl (fun a p => E.bin a p.1 p.2) e0) := by
  rw [binaryExprR_succ]
  simp only [mkList, hx]
  exact foldExprsR_pairs _ ops e0 hops

/-- The helpers apply to what the matcher returns for `R1 % R2`: its result is a `mkList`. -/
theorem C30_match_result_is_mkList (c : Cx α) (f : Nat) (a b : G) (i n : Nat) (v : V α) (l : Log)
    (h : matchF c (f + 3) (G.listOf a b) i = (.ok n v, l)) :
    ∃ r0 pairs, v = .list (mkList r0 pairs) := by
  obtain ⟨r0, ps, rfl, hps⟩ := C29_list_shape c f a b i n v l h
  refine ⟨r0, ?_⟩
  clear h
  induction ps with
  | nil => exact ⟨[], rfl⟩
  | cons p rest ih =>
    obtain ⟨s, r, rfl⟩ := hps p (by simp)
    obtain ⟨pairs, hp⟩ := ih (fun q hq => hps q (by simp [hq]))
    simp only [mkList, V.list.injEq, List.cons.injEq, and_true, true_and] at hp
    exact ⟨(s, r) :: pairs, by simp [mkList, hp]⟩

/-! Non-vacuity -/
example : listOf (mkList (.tok 0) [(.tok 1, .tok 2), (.tok 3, .tok 4)] : List (V Nat)) matches
    .ok [.tok 0, .tok 2, .tok 4] := by decide
example : binaryOpNR (fun o x y => .list [.tok o, x, y])
    (mkList (.leaf 1) (opPairs [(7, .leaf 2), (8, .leaf 3)]) : List (V Nat)) matches
    .ok (.list [.tok 8, .list [.tok 7, .leaf 1, .leaf 2], .leaf 3]) := by decide
example : binaryOpNR (fun o x y => .list [.tok o, x, y]) ([.leaf 1] : List (V Nat)) matches .panic := by decide
example : binaryExprNR (mkList (.leaf (.atom 1)) (opPairs [(7, .leaf (.atom 2))])) matches
    .ok (.bin (.atom 1) 7 (.atom 2)) := by decide
example : binaryExprNR (mkList (.tok 1) []) matches .panic := by decide

end GopModel.Tpl
