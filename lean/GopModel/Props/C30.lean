/-
C30 — TPL result helpers fold lists left to right.

Theorems about the model (Model/TplHelpers.lean) of `List`, `ListOp`, `RangeOp`, `BinaryOpNR/R`,
`BinaryExprNR/R` of tpl/tpl.go on the result structure of `R % sep`
(`[r₀, [[s₁, r₁], …, [sₖ, rₖ]]]`, see C29_list_shape), and about the README calculator.
-/
import GopModel.Model.TplHelpers
import GopModel.Lemmas.TplCalc
import GopModel.Lemmas.TplTerm
import GopModel.Props.C29
import GopModel.Props.C28
namespace GopModel.Tpl

variable {α : Type}

/-- The result structure of `R % sep`: first `R` result, then the `(sep, R)` pairs. -/
def mkList (r0 : V α) (pairs : List (V α × V α)) : List (V α) :=
  [r0, .list (pairs.map fun p => .list [p.1, p.2])]

theorem mapSeconds_pairs {β : Type} (f : V α → β) (pairs : List (V α × V α)) :
    mapSeconds f (pairs.map fun p => .list [p.1, p.2]) = .ok (pairs.map fun p => f p.2) := by
  induction pairs with
  | nil => rfl
  | cons p rest ih => simp [mapSeconds, second, ih]

/-- `ListOp` maps `fn` over the `R` results in source order. -/
theorem C30_listOp_map {β : Type} (f : V α → β) (r0 : V α) (pairs : List (V α × V α)) :
    listOp f (mkList r0 pairs) = .ok ((r0 :: pairs.map (·.2)).map f) := by
  simp [mkList, listOp, mapSeconds_pairs, List.map_map, Function.comp_def]

/-- `List` returns the `R` results in source order (separators dropped). -/
theorem C30_list_of (r0 : V α) (pairs : List (V α × V α)) :
    listOf (mkList r0 pairs) = .ok (r0 :: pairs.map (·.2)) := by
  simp [listOf, C30_listOp_map]

theorem rangeSeconds_pairs (pairs : List (V α × V α)) :
    rangeSeconds (pairs.map fun p => .list [p.1, p.2]) = (pairs.map (·.2), false) := by
  induction pairs with
  | nil => rfl
  | cons p rest ih => simp [rangeSeconds, second, ih]

/-- `RangeOp` visits the `R` results in source order, each once. -/
theorem C30_rangeOp_order (r0 : V α) (pairs : List (V α × V α)) :
    rangeOp (mkList r0 pairs) = (r0 :: pairs.map (·.2), false) := by
  simp [mkList, rangeOp, rangeSeconds_pairs]

/-- `(op token, operand)` pairs as they appear in the result of `X % op`. -/
def opPairs (ops : List (Nat × V α)) : List (V α × V α) := ops.map fun p => (.tok p.1, p.2)

theorem foldOps_pairs (fn : Nat → V α → V α → V α) (ops : List (Nat × V α)) (acc : V α) :
    foldOps fn acc ((opPairs ops).map fun p => .list [p.1, p.2]) =
      .ok (ops.foldl (fun a p => fn p.1 a p.2) acc) := by
  induction ops generalizing acc with
  | nil => rfl
  | cons p rest ih =>
    simp only [opPairs, List.map_cons, foldOps, opAndY, List.foldl_cons]
    simpa [opPairs] using ih (fn p.1 acc p.2)

/-- `BinaryOp(false, …)`: a left fold with the separators in order:
`fn(opₖ, … fn(op₂, fn(op₁, x₀, x₁), x₂) …, xₖ)`. -/
theorem C30_binaryOpNR_foldl (fn : Nat → V α → V α → V α) (x0 : V α) (ops : List (Nat × V α)) :
    binaryOpNR fn (mkList x0 (opPairs ops)) = .ok (ops.foldl (fun a p => fn p.1 a p.2) x0) := by
  simp only [mkList, binaryOpNR]
  exact foldOps_pairs fn ops x0

/-- How `BinaryOpR` treats an operand: a list is folded recursively, anything else is kept. -/
def evalOperand (fn : Nat → V α → V α → V α) (fuel : Nat) : V α → HRes (V α) :=
  operandWith (binaryOpR fn fuel) HRes.ok

theorem binaryOpR_succ (fn : Nat → V α → V α → V α) (f : Nat) (inp : List (V α)) :
    binaryOpR fn (f + 1) inp =
      match inp with
      | [] => .panic
      | x :: rest =>
        match evalOperand fn f x with
        | .ok x' =>
          match rest with
          | .list next :: _ => foldOpsR (evalOperand fn f) fn x' next
          | _ => .panic
        | .panic => .panic
        | .fuel => .fuel := by
  cases inp <;> rfl

/-- Operands with their evaluated form: `(op, y, y')`. -/
def rawOps (ops : List (Nat × V α × V α)) : List (Nat × V α) := ops.map fun t => (t.1, t.2.1)
def evOps (ops : List (Nat × V α × V α)) : List (Nat × V α) := ops.map fun t => (t.1, t.2.2)

theorem foldOpsR_pairs (operand : V α → HRes (V α)) (fn : Nat → V α → V α → V α) :
    ∀ (ops : List (Nat × V α × V α)) (acc : V α),
      (∀ t ∈ ops, operand t.2.1 = .ok t.2.2) →
      foldOpsR operand fn acc ((opPairs (rawOps ops)).map fun p => .list [p.1, p.2]) =
        .ok ((evOps ops).foldl (fun a p => fn p.1 a p.2) acc) := by
  intro ops
  induction ops with
  | nil => intro acc _; rfl
  | cons t rest ih =>
    intro acc h
    have ht := h t (by simp)
    simp only [rawOps, evOps, opPairs, List.map_cons, foldOpsR, opAndY, ht, List.foldl_cons]
    simpa [rawOps, evOps, opPairs] using ih (fn t.1 acc t.2.2) (fun t' ht' => h t' (by simp [ht']))

/-- `BinaryOp(true, …)`: the same left fold, after evaluating every operand that is itself a
list (the result of a nested `X % op`) recursively (`ops`: operator, operand, evaluated operand). -/
theorem C30_binaryOpR_foldl_nested (fn : Nat → V α → V α → V α) (f : Nat) (x0 x0' : V α)
    (ops : List (Nat × V α × V α))
    (hx : evalOperand fn f x0 = .ok x0')
    (hops : ∀ t ∈ ops, evalOperand fn f t.2.1 = .ok t.2.2) :
    binaryOpR fn (f + 1) (mkList x0 (opPairs (rawOps ops))) =
      .ok ((evOps ops).foldl (fun a p => fn p.1 a p.2) x0') := by
  rw [binaryOpR_succ]
  simp only [mkList, hx]
  exact foldOpsR_pairs _ fn ops x0' hops

theorem foldExprs_pairs (ops : List (Nat × E)) (acc : E) :
    foldExprs acc ((opPairs (ops.map fun p => (p.1, V.leaf p.2))).map fun p => .list [p.1, p.2]) =
      .ok (ops.foldl (fun a p => E.bin a p.1 p.2) acc) := by
  induction ops generalizing acc with
  | nil => rfl
  | cons p rest ih =>
    simp only [opPairs, List.map_cons, foldExprs, asExpr, List.foldl_cons]
    simpa [opPairs] using ih (E.bin acc p.1 p.2)

/-- `BinaryExpr(false, …)` builds the left-associative tree
`((x₀ op₁ x₁) op₂ x₂) … opₖ xₖ`, operators in order. -/
theorem C30_binaryExpr_leftassoc (e0 : E) (ops : List (Nat × E)) :
    binaryExprNR (mkList (.leaf e0) (opPairs (ops.map fun p => (p.1, V.leaf p.2)))) =
      .ok (ops.foldl (fun a p => E.bin a p.1 p.2) e0) := by
  simp only [mkList, binaryExprNR, asExpr]
  exact foldExprs_pairs ops e0

/-- Operand of `BinaryExprR`. -/
def evalExprOperand (fuel : Nat) : V E → HRes E := operandWith (binaryExprR fuel) asExpr

theorem binaryExprR_succ (f : Nat) (inp : List (V E)) :
    binaryExprR (f + 1) inp =
      match inp with
      | [] => .panic
      | x :: rest =>
        match evalExprOperand f x with
        | .ok e =>
          match rest with
          | .list next :: _ => foldExprsR (evalExprOperand f) e next
          | _ => .panic
        | .panic => .panic
        | .fuel => .fuel := by
  cases inp <;> rfl

theorem foldExprsR_pairs (operand : V E → HRes E) :
    ∀ (ops : List (Nat × V E × E)) (acc : E),
      (∀ t ∈ ops, operand t.2.1 = .ok t.2.2) →
      foldExprsR operand acc ((opPairs (ops.map fun t => (t.1, t.2.1))).map fun p => .list [p.1, p.2]) =
        .ok ((ops.map fun t => (t.1, t.2.2)).foldl (fun a p => E.bin a p.1 p.2) acc) := by
  intro ops
  induction ops with
  | nil => intro acc _; rfl
  | cons t rest ih =>
    intro acc h
    have ht := h t (by simp)
    simp only [opPairs, List.map_cons, foldExprsR, ht, List.foldl_cons]
    simpa [opPairs] using ih (E.bin acc t.1 t.2.2) (fun t' ht' => h t' (by simp [ht']))

/-- `BinaryExpr(true, …)`: left-associative tree over recursively built operands
(`ops`: operator, operand, the expression built for the operand). -/
theorem C30_binaryExprR_leftassoc_nested (f : Nat) (x0 : V E) (e0 : E) (ops : List (Nat × V E × E))
    (hx : evalExprOperand f x0 = .ok e0)
    (hops : ∀ t ∈ ops, evalExprOperand f t.2.1 = .ok t.2.2) :
    binaryExprR (f + 1) (mkList x0 (opPairs (ops.map fun t => (t.1, t.2.1)))) =
      .ok ((ops.map fun t => (t.1, t.2.2)).foldl (fun a p => E.bin a p.1 p.2) e0) := by
  rw [binaryExprR_succ]
  simp only [mkList, hx]
  exact foldExprsR_pairs _ ops e0 hops

/-- The helpers apply to what the matcher returns for `R1 % R2`: its result is a `mkList`. -/
theorem C30_match_result_is_mkList (c : Cx α) (f : Nat) (a b : G) (i n : Nat) (v : V α) (l : Log)
    (h : matchF c (f + 3) (G.listOf a b) i = (.ok n v, l)) :
    ∃ r0 pairs, v = .list (mkList r0 pairs) := by
  obtain ⟨r0, ps, rfl, hps⟩ := C29_list_shape c f a b i n v l h
  refine ⟨r0, ?_⟩
  clear h
  induction ps with
  | nil => exact ⟨[], rfl⟩
  | cons p rest ih =>
    obtain ⟨s, r, rfl⟩ := hps p (by simp)
    obtain ⟨pairs, hp⟩ := ih (fun q hq => hps q (by simp [hq]))
    simp only [mkList, V.list.injEq, List.cons.injEq, and_true, true_and] at hp
    exact ⟨(s, r) :: pairs, by simp [mkList, hp]⟩

/-! ## the order in which the helpers call their callback -/

section Order
variable {σ : Type}

/-- Left-to-right application of a stateful callback. -/
def mapS {β : Type} (f : σ → V α → σ × β) : σ → List (V α) → σ × List β
  | s, [] => (s, [])
  | s, v :: r => let a := f s v; let b := mapS f a.1 r; (b.1, a.2 :: b.2)

theorem mapSecondsS_pairs {β : Type} (f : σ → V α → σ × β) (pairs : List (V α × V α)) (s : σ) :
    mapSecondsS f s (pairs.map fun p => .list [p.1, p.2]) =
      ((mapS f s (pairs.map (·.2))).1, .ok (mapS f s (pairs.map (·.2))).2) := by
  induction pairs generalizing s with
  | nil => rfl
  | cons p rest ih => simp [mapSecondsS, second, ih, mapS]

/-- `ListOp` calls `fn` on the `R` results in source order — `fn(r₀)`, `fn(r₁)`, … — each
exactly once, and returns the values in that order (state-passing callback: the final state
and every returned value are those of the left-to-right traversal). -/
theorem C30_listOp_calls_in_order {β : Type} (f : σ → V α → σ × β) (s : σ) (r0 : V α)
    (pairs : List (V α × V α)) :
    listOpS f s (mkList r0 pairs) =
      ((mapS f s (r0 :: pairs.map (·.2))).1, .ok (mapS f s (r0 :: pairs.map (·.2))).2) := by
  simp [mkList, listOpS, mapSecondsS_pairs, mapS]

theorem mapS_log (l : List (V α)) (log : List (V α)) :
    (mapS (fun (lg : List (V α)) v => (lg ++ [v], v)) log l).1 = log ++ l := by
  induction l generalizing log with
  | nil => simp [mapS]
  | cons v r ih => simp [mapS, ih]

/-- With a logging callback the log of `ListOp` is exactly the `R` results in source order. -/
theorem C30_listOp_log (r0 : V α) (pairs : List (V α × V α)) :
    (listOpS (fun (lg : List (V α)) v => (lg ++ [v], v)) [] (mkList r0 pairs)).1 =
      r0 :: pairs.map (·.2) := by
  rw [C30_listOp_calls_in_order]
  simpa using mapS_log (r0 :: pairs.map (·.2)) ([] : List (V α))

/-- With a callback that ignores the state `listOpS` is `listOp`. -/
theorem listOpS_pure {β : Type} (g : V α → β) (s : σ) (r0 : V α) (pairs : List (V α × V α)) :
    (listOpS (fun st v => (st, g v)) s (mkList r0 pairs)).2 = listOp g (mkList r0 pairs) := by
  rw [C30_listOp_calls_in_order, C30_listOp_map]
  have : ∀ (l : List (V α)) (st : σ), (mapS (fun st v => (st, g v)) st l).2 = l.map g := by
    intro l
    induction l with
    | nil => intro st; rfl
    | cons v r ih => intro st; simp [mapS, ih]
  simp [this]

theorem rangeSecondsS_pairs (f : σ → V α → σ) (pairs : List (V α × V α)) (s : σ) :
    rangeSecondsS f s (pairs.map fun p => .list [p.1, p.2]) = ((pairs.map (·.2)).foldl f s, false) := by
  induction pairs generalizing s with
  | nil => rfl
  | cons p rest ih => simp [rangeSecondsS, second, ih]

/-- `RangeOp` calls `fn` on the `R` results in source order, each exactly once. -/
theorem C30_rangeOp_calls_in_order (f : σ → V α → σ) (s : σ) (r0 : V α) (pairs : List (V α × V α)) :
    rangeOpS f s (mkList r0 pairs) = ((r0 :: pairs.map (·.2)).foldl f s, false) := by
  simp [mkList, rangeOpS, rangeSecondsS_pairs]

theorem foldOpsS_pairs (fn : σ → Nat → V α → V α → σ × V α) (ops : List (Nat × V α)) (s : σ) (acc : V α) :
    foldOpsS fn s acc ((opPairs ops).map fun p => .list [p.1, p.2]) =
      ((ops.foldl (fun (st : σ × V α) p => fn st.1 p.1 st.2 p.2) (s, acc)).1,
       .ok (ops.foldl (fun (st : σ × V α) p => fn st.1 p.1 st.2 p.2) (s, acc)).2) := by
  induction ops generalizing s acc with
  | nil => rfl
  | cons p rest ih =>
    simp only [opPairs, List.map_cons, foldOpsS, opAndY, List.foldl_cons]
    simpa [opPairs] using ih (fn s p.1 acc p.2).1 (fn s p.1 acc p.2).2

/-- `BinaryOp(false, …)` calls `fn(op₁, x₀, x₁)`, then `fn(op₂, ·, x₂)`, … in source order,
once per separator; operands are passed as they are (a list-valued operand is opaque). -/
theorem C30_binaryOp_calls_in_order (fn : σ → Nat → V α → V α → σ × V α) (s : σ) (x0 : V α)
    (ops : List (Nat × V α)) :
    binaryOpNRS fn s (mkList x0 (opPairs ops)) =
      ((ops.foldl (fun (st : σ × V α) p => fn st.1 p.1 st.2 p.2) (s, x0)).1,
       .ok (ops.foldl (fun (st : σ × V α) p => fn st.1 p.1 st.2 p.2) (s, x0)).2) := by
  simp only [mkList, binaryOpNRS]
  exact foldOpsS_pairs fn ops s x0

/-- Operand of `BinaryOpR` with a stateful callback. -/
def evalOperandS (fn : σ → Nat → V α → V α → σ × V α) (fuel : Nat) : σ → V α → σ × HRes (V α) :=
  operandWithS (binaryOpRS fn fuel)

/-- Evaluation order of `BinaryOp(true, …)` over the logical `(op, operand)` pairs: evaluate the
operand (its nested calls happen now), then call `fn(op, acc, operand)`; left to right. -/
def foldSpecS (ev : σ → V α → σ × HRes (V α)) (fn : σ → Nat → V α → V α → σ × V α) :
    σ → V α → List (Nat × V α) → σ × HRes (V α)
  | s, acc, [] => (s, .ok acc)
  | s, acc, p :: rest =>
    match ev s p.2 with
    | (s1, .ok y') => let r := fn s1 p.1 acc y'; foldSpecS ev fn r.1 r.2 rest
    | (s1, .panic) => (s1, .panic)
    | (s1, .fuel) => (s1, .fuel)

theorem foldOpsRS_pairs (ev : σ → V α → σ × HRes (V α)) (fn : σ → Nat → V α → V α → σ × V α)
    (ops : List (Nat × V α)) (s : σ) (acc : V α) :
    foldOpsRS ev fn s acc ((opPairs ops).map fun p => .list [p.1, p.2]) = foldSpecS ev fn s acc ops := by
  induction ops generalizing s acc with
  | nil => rfl
  | cons p rest ih =>
    simp only [opPairs, List.map_cons, foldOpsRS, opAndY, foldSpecS]
    rcases hev : ev s p.2 with ⟨s1, r⟩
    cases r with
    | ok y' => simpa [opPairs] using ih (fn s1 p.1 acc y').1 (fn s1 p.1 acc y').2
    | panic => rfl
    | fuel => rfl

theorem binaryOpRS_succ (fn : σ → Nat → V α → V α → σ × V α) (f : Nat) (s : σ) (inp : List (V α)) :
    binaryOpRS fn (f + 1) s inp =
      match inp with
      | [] => (s, .panic)
      | x :: rest =>
        match evalOperandS fn f s x with
        | (s1, .ok x') =>
          match rest with
          | .list next :: _ => foldOpsRS (evalOperandS fn f) fn s1 x' next
          | _ => (s1, .panic)
        | (s1, .panic) => (s1, .panic)
        | (s1, .fuel) => (s1, .fuel) := by
  cases inp <;> rfl

/-- `BinaryOp(true, …)`: the first operand is evaluated first, then for every `(op, operand)`
pair in source order the operand is evaluated and `fn(op, acc, operand)` is called. -/
theorem C30_binaryOpR_calls_in_order (fn : σ → Nat → V α → V α → σ × V α) (f : Nat) (s : σ)
    (x0 : V α) (ops : List (Nat × V α)) :
    binaryOpRS fn (f + 1) s (mkList x0 (opPairs ops)) =
      match evalOperandS fn f s x0 with
      | (s1, .ok x0') => foldSpecS (evalOperandS fn f) fn s1 x0' ops
      | (s1, .panic) => (s1, .panic)
      | (s1, .fuel) => (s1, .fuel) := by
  rw [binaryOpRS_succ]
  simp only [mkList]
  rcases evalOperandS fn f s x0 with ⟨s1, r⟩
  cases r with
  | ok x0' => exact foldOpsRS_pairs _ fn ops s1 x0'
  | panic => rfl
  | fuel => rfl

/-- With a callback that ignores the state the stateful helpers are the pure ones. -/
theorem foldOpsS_pure (g : Nat → V α → V α → V α) (s : σ) : ∀ (l : List (V α)) (acc : V α),
    foldOpsS (fun st o x y => (st, g o x y)) s acc l = (s, foldOps g acc l) := by
  intro l
  induction l with
  | nil => intro acc; rfl
  | cons v rest ih =>
    intro acc
    simp only [foldOpsS, foldOps]
    cases opAndY v with
    | ok p => simpa using ih (g p.1 acc p.2)
    | panic => rfl
    | fuel => rfl

theorem binaryOpNRS_pure (g : Nat → V α → V α → V α) (s : σ) (inp : List (V α)) :
    binaryOpNRS (fun st o x y => (st, g o x y)) s inp = (s, binaryOpNR g inp) := by
  unfold binaryOpNRS binaryOpNR
  split
  · exact foldOpsS_pure g s _ _
  · rfl

theorem binaryOpRS_pure (g : Nat → V α → V α → V α) : ∀ (f : Nat) (s : σ) (inp : List (V α)),
    binaryOpRS (fun st o x y => (st, g o x y)) f s inp = (s, binaryOpR g f inp) := by
  intro f
  induction f with
  | zero => intro s inp; rfl
  | succ f ih =>
    intro s inp
    have hop : ∀ (s : σ) (v : V α),
        evalOperandS (fun st o x y => (st, g o x y)) f s v = (s, evalOperand g f v) := by
      intro s v
      cases v <;> simp [evalOperandS, evalOperand, operandWithS, operandWith, ih]
    have hfold : ∀ (l : List (V α)) (s : σ) (acc : V α),
        foldOpsRS (evalOperandS (fun st o x y => (st, g o x y)) f) (fun st o x y => (st, g o x y)) s acc l =
          (s, foldOpsR (evalOperand g f) g acc l) := by
      intro l
      induction l with
      | nil => intro s acc; rfl
      | cons v rest ihl =>
        intro s acc
        simp only [foldOpsRS, foldOpsR]
        cases opAndY v with
        | ok p =>
          simp only [hop]
          cases evalOperand g f p.2 with
          | ok y' => simpa using ihl s (g p.1 acc y')
          | panic => rfl
          | fuel => rfl
        | panic => rfl
        | fuel => rfl
    rw [binaryOpRS_succ, binaryOpR_succ]
    cases inp with
    | nil => rfl
    | cons x rest =>
      simp only [hop]
      cases evalOperand g f x with
      | ok x' =>
        simp only
        split
        · exact hfold _ s x'
        · rfl
      | panic => rfl
      | fuel => rfl

end Order

/-! ## the helpers leave the match result alone -/

/-- Helpers are functions of the result tree: in a sequence of helper calls on the same match
result, the k-th call returns what that helper returns on the original tree, whatever was
called before (this is the obligation on the Go code that takes `[]any` by reference; the
correspondence run checks it on one real tree per sequence, key `helper-mutates-input`). -/
theorem C30_helpers_pure {σ : Type} (wrapf : σ → V α → σ × V α) (fn : σ → Nat → V α → V α → σ × V α)
    (s0 : σ) (fuel : Nat) (ops : List HOp) (inp : List (V α)) (k : Nat) :
    (seqOuts wrapf fn s0 fuel ops inp)[k]? = ops[k]?.map (fun op => applyOp wrapf fn s0 fuel op inp) := by
  simp [seqOuts]

/-- Re-applying a helper after any other helper gives the same answer again. -/
theorem C30_helpers_repeatable {σ : Type} (wrapf : σ → V α → σ × V α)
    (fn : σ → Nat → V α → V α → σ × V α) (s0 : σ) (fuel : Nat) (h1 h2 : HOp) (inp : List (V α)) :
    seqOuts wrapf fn s0 fuel [h1, h2, h1] inp =
      [applyOp wrapf fn s0 fuel h1 inp, applyOp wrapf fn s0 fuel h2 inp, applyOp wrapf fn s0 fuel h1 inp] := rfl

theorem C30_exprHelpers_pure (fuel : Nat) (ops : List Bool) (inp : List (V E)) (k : Nat) :
    (seqExprOuts fuel ops inp)[k]? = ops[k]?.map (fun r => applyExprOp fuel r inp) := by
  simp [seqExprOuts]

/-- In particular `List` followed by `RangeOp` on the result of `R % sep` still visits the `R`
results in source order (the seeded `append(in[:1], …)` change broke exactly this). -/
theorem C30_list_then_rangeOp {σ : Type} (wrapf : σ → V α → σ × V α)
    (fn : σ → Nat → V α → V α → σ × V α) (s0 : σ) (fuel : Nat) (r0 : V α) (pairs : List (V α × V α)) :
    seqOuts wrapf fn s0 fuel [.list, .rangeop, .list] (mkList r0 pairs) =
      [.lst s0 (.ok (r0 :: pairs.map (·.2))), .visited (r0 :: pairs.map (·.2)) false,
       .lst s0 (.ok (r0 :: pairs.map (·.2)))] := by
  simp [seqOuts, applyOp, C30_list_of, C30_rangeOp_order]

/-! ## the README calculator -/

section Calc
variable (A : Arith α) (num : Tok → α) (toks : List Tok) (fileEnd : Nat)

theorem evalOperand_leaf (fn : Nat → V α → V α → V α) (f : Nat) (a : α) :
    evalOperand fn f (.leaf a) = .ok (.leaf a) := rfl

theorem calcFn_mul {p : Nat} {t : Tok} {q : Bool} (ht : toks[p]? = some t)
    (hk : t.kind = if q then kQUO else kMUL) (a b : α) :
    calcFn A toks p (.leaf a) (.leaf b) = .leaf (mulOp A q a b) := by
  cases q <;> simp [calcFn, ht, hk, mulOp, kADD, kSUB, kMUL, kQUO]

theorem calcFn_add {p : Nat} {t : Tok} {s : Bool} (ht : toks[p]? = some t)
    (hk : t.kind = if s then kSUB else kADD) (a b : α) :
    calcFn A toks p (.leaf a) (.leaf b) = .leaf (addOp A s a b) := by
  cases s <;> simp [calcFn, ht, hk, addOp, kADD, kSUB, kMUL, kQUO]

theorem foldOpsR_mulPairs : ∀ (ops : List (Bool × Opd α)) (p : Nat) (acc : α) (rest : List (ATok α)),
    atFrom num toks p = lexOps mulTok Opd.lex ops ++ rest →
    foldOpsR (evalOperand (calcFn A toks) 1) (calcFn A toks) (.leaf acc) (mulPairs A p ops) =
      .ok (.leaf (ops.foldl (fun a q => mulOp A q.1 a (q.2.eval A)) acc)) := by
  intro ops
  induction ops with
  | nil => intro p acc rest _; rfl
  | cons q ops ih =>
    intro p acc rest h
    simp only [lexOps, List.cons_append, List.append_assoc] at h
    obtain ⟨t, ht, hab, h'⟩ := atFrom_cons num toks h
    have hk := abstr_kind num hab
    have hkind : t.kind = if q.1 then kQUO else kMUL := by
      cases hq : q.1 with
      | false => simpa using hk.2.2.1 (by simp [mulTok, hq])
      | true => simpa using hk.2.2.2.1 (by simp [mulTok, hq])
    simp only [mulPairs, foldOpsR, opAndY, evalOperand_leaf, calcFn_mul A toks ht hkind, List.foldl_cons]
    exact ih _ _ rest (atFrom_append num toks h')

/-- `BinaryOp(true, …)` on the result of a term folds `*` and `/` left to right. -/
theorem binaryOpR_termRes (t : Term α) (i : Nat) (rest : List (ATok α))
    (h : atFrom num toks i = t.lex ++ rest) :
    evalOperand (calcFn A toks) 2 (termRes A i t) = .ok (.leaf (t.eval A)) := by
  obtain ⟨o, ops⟩ := t
  simp only [Term.lex, List.append_assoc] at h
  simp only [termRes, evalOperand, operandWith]
  rw [binaryOpR_succ]
  simp only [evalOperand_leaf]
  exact foldOpsR_mulPairs A num toks ops _ _ rest (atFrom_append num toks h)

theorem foldOpsR_addPairs : ∀ (ops : List (Bool × Term α)) (p : Nat) (acc : α) (rest : List (ATok α)),
    atFrom num toks p = lexOps addTok Term.lex ops ++ rest →
    foldOpsR (evalOperand (calcFn A toks) 2) (calcFn A toks) (.leaf acc) (addPairs A p ops) =
      .ok (.leaf (ops.foldl (fun a q => addOp A q.1 a (q.2.eval A)) acc)) := by
  intro ops
  induction ops with
  | nil => intro p acc rest _; rfl
  | cons q ops ih =>
    intro p acc rest h
    simp only [lexOps, List.cons_append, List.append_assoc] at h
    obtain ⟨t, ht, hab, h'⟩ := atFrom_cons num toks h
    have hk := abstr_kind num hab
    have hkind : t.kind = if q.1 then kSUB else kADD := by
      cases hq : q.1 with
      | false => simpa using hk.1 (by simp [addTok, hq])
      | true => simpa using hk.2.1 (by simp [addTok, hq])
    simp only [addPairs, foldOpsR, opAndY, binaryOpR_termRes A num toks q.2 (p + 1) _ h',
      calcFn_add A toks ht hkind, List.foldl_cons]
    exact ih _ _ rest (atFrom_append num toks h')

/-- The return procedure of rule `expr` computes the value of the expression. -/
theorem binaryOpR_exprRes (e : AExpr α) (i : Nat) (rest : List (ATok α))
    (h : atFrom num toks i = e.lex ++ rest) :
    binaryOpR (calcFn A toks) 3 [termRes A i e.1, .list (addPairs A (i + e.1.lex.length) e.2)] =
      .ok (.leaf (e.eval A)) := by
  obtain ⟨t, ops⟩ := e
  simp only [AExpr.lex, List.append_assoc] at h
  rw [binaryOpR_succ]
  simp only [binaryOpR_termRes A num toks t i _ h]
  exact foldOpsR_addPairs A num toks ops _ _ rest (atFrom_append num toks h)

/-- Rule `expr` on a lexed expression: consumes it all and returns its value. -/
theorem evals_calc_expr (e : AExpr α) (rest : List (ATok α))
    (h : toks.map (abstr num) = e.lex ++ rest) (hrest : NotOp rest) :
    Evals (calcCx A num toks fileEnd) (.var bExpr) 0 e.lex.length (.leaf (e.eval A)) := by
  have h0 : atFrom num toks 0 = e.lex ++ rest := by simpa [atFrom] using h
  have hb := evals_exprBody A num toks fileEnd e 0 rest h0 hrest
  have hv := evals_var (find_expr A num toks fileEnd) hb
  have hp : (calcCx A num toks fileEnd).procs bExpr = calcProcs A num toks bExpr := rfl
  simp only [hp, calcProcs, if_true, exprRes] at hv
  have hval := binaryOpR_exprRes A num toks e 0 rest h0
  simp only [Nat.zero_add] at hval hv
  simpa [hval] using hv

theorem calcEnv_wf : calcEnv.wf = true := by decide
theorem calcEnv_checked : checkAll calcEnv = .ok := by decide

/-- **Calculator correctness.**  For every arithmetic expression `e` (operands with repeated
unary minus, `* /` and `+ -` levels) and every token list that spells it (followed by nothing
or by a token that is not a binary operator, e.g. the automatic `;`), both evaluators consume
exactly the expression and yield `e.eval`: the precedence-climbing reference, and the README
calculator grammar with its `BinaryOp(true, …)` return procedures run by the matcher with the
fuel of C28. -/
theorem C30_calc_correct (e : AExpr α) (rest : List (ATok α))
    (h : toks.map (abstr num) = e.lex ++ rest) (hrest : NotOp rest) :
    pcExpr A (3 * toks.length + 3) 1 (toks.map (abstr num)) = some (e.eval A, rest) ∧
    (matchTop (calcCx A num toks fileEnd) (matchBound calcEnv toks.length) bExpr).res =
      .ok e.lex.length (.leaf (e.eval A)) := by
  constructor
  · rw [h]
    apply pcExpr_expr A e rest hrest
    have : toks.length = (e.lex ++ rest).length := by rw [← h]; simp
    simp only [List.length_append] at this
    omega
  · have hev := evals_calc_expr A num toks fileEnd e rest h hrest
    have hne := C28_match_terminates (calcCx A num toks fileEnd) calcEnv_wf calcEnv_checked bExpr
    exact hev.at_fuel _ hne

theorem parseExprTop_ok (c : Cx α) (fuel : Nat) (doc : Bytes) (n : Nat) (r : V α)
    (hm : (matchTop c fuel doc).res = .ok n r)
    (hend : ∀ t, c.toks[n]? = some t → t.kind = tokSEMICOLON ∨ t.kind = tokEOF) :
    parseExprTop c fuel doc = .ok r := by
  unfold parseExprTop
  simp only [hm]
  cases ht : c.toks[n]? with
  | none => rfl
  | some t => simp [hend t ht]

/-- `ParseExpr` of the calculator returns the value when the expression is the whole input
(or is followed by `;`). -/
theorem C30_calc_parseExpr (e : AExpr α) (rest : List (ATok α))
    (h : toks.map (abstr num) = e.lex ++ rest)
    (hend : ∀ t, toks[e.lex.length]? = some t → t.kind = tokSEMICOLON ∨ t.kind = tokEOF) :
    calcParseExpr A num toks fileEnd = .ok (.leaf (e.eval A)) := by
  have hrest : NotOp rest := by
    intro a ha
    cases hr : rest with
    | nil => rw [hr] at ha; cases ha
    | cons b r =>
      rw [hr] at ha h
      simp only [List.head?_cons, Option.some.injEq] at ha
      subst ha
      have h0 : atFrom num toks 0 = e.lex ++ b :: r := by simpa [atFrom] using h
      obtain ⟨t, ht, hab, _⟩ := atFrom_cons num toks (atFrom_append num toks h0)
      simp only [Nat.zero_add] at ht
      have hk := hend t ht
      subst hab
      unfold abstr
      rcases hk with hk | hk <;> simp [hk, tokSEMICOLON, tokEOF, kINT, kFLOAT, kADD, kSUB, kMUL, kQUO, ATok.prec]
  have hm := (C30_calc_correct A num toks fileEnd e rest h hrest).2
  exact parseExprTop_ok _ _ _ _ _ hm hend

end Calc

/-! Non-vacuity -/
example : listOf (mkList (.tok 0) [(.tok 1, .tok 2), (.tok 3, .tok 4)] : List (V Nat)) matches
    .ok [.tok 0, .tok 2, .tok 4] := by decide
example : binaryOpNR (fun o x y => .list [.tok o, x, y])
    (mkList (.leaf 1) (opPairs [(7, .leaf 2), (8, .leaf 3)]) : List (V Nat)) matches
    .ok (.list [.tok 8, .list [.tok 7, .leaf 1, .leaf 2], .leaf 3]) := by decide
example : binaryOpNR (fun o x y => .list [.tok o, x, y]) ([.leaf 1] : List (V Nat)) matches .panic := by decide
example : binaryExprNR (mkList (.leaf (.atom 1)) (opPairs [(7, .leaf (.atom 2))])) matches
    .ok (.bin (.atom 1) 7 (.atom 2)) := by decide
example : binaryExprNR (mkList (.tok 1) []) matches .panic := by decide

/-- README: `1 + 2 * -3` evaluates to `-5` (tokens as the real scanner yields them, with the
automatic `;`). -/
def exToks : List Tok :=
  [⟨kINT, [0x31], 1, 2⟩, ⟨kADD, [], 3, 4⟩, ⟨kINT, [0x32], 5, 6⟩, ⟨kMUL, [], 7, 8⟩, ⟨kSUB, [], 9, 10⟩,
   ⟨kINT, [0x33], 10, 11⟩, ⟨tokSEMICOLON, [0x0a], 11, 12⟩]
def exArith : Arith Int := ⟨(· + ·), (· - ·), (· * ·), (· / ·), (- ·)⟩
def exNum (t : Tok) : Int := match t.lit with | [b] => (b.toNat : Int) - 48 | _ => 0
example : calcParseExpr exArith exNum exToks 11 matches .ok (.leaf (-5)) := by decide
/-- the same through the theorem: the hypotheses of `C30_calc_parseExpr` are satisfiable -/
example : calcParseExpr exArith exNum exToks 11 = .ok (.leaf (-5)) :=
  C30_calc_parseExpr exArith exNum exToks 11
    ((.num 1, []), [(false, (.num 2, [(false, .neg (.num 3))]))]) [.other] (by rfl)
    (fun t ht => by
      simp [exToks, AExpr.lex, Term.lex, Opd.lex, lexOps] at ht
      subst ht; left; rfl)

end GopModel.Tpl
