/-
C05 — string interpolation equals explicit concatenation.

`splitParts` is `parser.stringLitEx` (the goto loop), `render`/`trimDD` the part handling of
`cl.compileStringLitEx`, `spec` the one-pass grammar `(char | "$$" | "${" e "}")*`.

* `C05_split_spec`     what the implementation makes of a literal is what the grammar says
                       (items = literal bytes and holes in order), errors included.  FULL.
* `C05_split_pos`      every expression part's recorded offsets are exactly the bytes between
                       `${` and the first `}` after it.  FULL.
* `C05_split_total`    the loop ends within `len(text)+1` passes.  FULL.
* `C05_dollar_escape`  `$$` contributes exactly one `$`.
* `C05_concat_lower`, `C05_eval_once_left_to_right`
                       the lowered call (single part, or `Concat` of all parts) evaluates to the
                       concatenation of the pieces' string forms, and its event trace is the
                       embedded expressions' ids, each once, left to right.  FULL on the
                       expression-list model (`strOf` = strconv / `Error()` / `String()` is a
                       parameter; floats not modelled).
The string forms themselves and Go's unquoting of the text pieces are compared on compiled
programs by the check, not proved.
-/
import GopModel.Model.Interp
namespace GopModel.Interp

/-! ## helpers -/

def SpecRes.prepend (l : List Item) : SpecRes → SpecRes
  | .ok l' => .ok (l ++ l')
  | r => r

theorem prepend_nil (r : SpecRes) : r.prepend [] = r := by cases r <;> rfl

theorem cons_prepend (i : Item) (l : List Item) (r : SpecRes) :
    (r.prepend l).cons i = r.prepend (i :: l) := by cases r <;> rfl

theorem cons_eq_prepend (i : Item) (r : SpecRes) : r.cons i = r.prepend [i] := by cases r <;> rfl

theorem prepend_prepend (l₁ l₂ : List Item) (r : SpecRes) :
    (r.prepend l₂).prepend l₁ = r.prepend (l₁ ++ l₂) := by
  cases r <;> simp [SpecRes.prepend]

theorem indexByte_none {c : UInt8} : ∀ {t : Bytes}, indexByte c t = none → c ∉ t
  | [], _ => by simp
  | b :: t, h => by
    by_cases hb : b = c
    · simp [indexByte, hb] at h
    · simp only [indexByte, hb, if_false, Option.map_eq_none_iff] at h
      have := indexByte_none h
      simp [this, Ne.symm hb]

theorem indexByte_some {c : UInt8} : ∀ {t : Bytes} {i : Nat}, indexByte c t = some i →
    ∃ pre post, t = pre ++ c :: post ∧ c ∉ pre ∧ pre.length = i
  | [], _, h => by simp [indexByte] at h
  | b :: t, i, h => by
    by_cases hb : b = c
    · simp only [indexByte, hb, if_true, Option.some.injEq] at h
      exact ⟨[], t, by simp [hb], by simp, by simp [h]⟩
    · simp only [indexByte, hb, if_false, Option.map_eq_some_iff] at h
      obtain ⟨j, hj, rfl⟩ := h
      obtain ⟨pre, post, rfl, hn, rfl⟩ := indexByte_some hj
      exact ⟨b :: pre, post, by simp, by simp [hn, Ne.symm hb], by simp⟩

theorem drop_len_succ (pre : Bytes) (c : UInt8) (tail : Bytes) :
    (pre ++ c :: tail).drop (pre.length + 1) = tail := by
  induction pre with
  | nil => simp
  | cons a t ih => simp

theorem take_len2 (pre : Bytes) (a b : UInt8) (r : Bytes) :
    (pre ++ a :: b :: r).take (pre.length + 2) = pre ++ [a, b] := by
  induction pre with
  | nil => simp
  | cons x t ih => simpa using ih

/-! ### `$$` trimming -/

theorem endsDD_false_of_not_mem {s : Bytes} (h : DOLLAR ∉ s) : endsDD s = false := by
  unfold endsDD
  split
  · rename_i a b _ heq
    have : a ∈ s := by
      have : a ∈ s.reverse := by rw [heq]; simp
      exact List.mem_reverse.1 this
    have ha : a ≠ DOLLAR := fun e => h (e ▸ this)
    simp [ha]
  · rfl

theorem endsDD_snoc1 {pre : Bytes} (x : UInt8) (h : DOLLAR ∉ pre) : endsDD (pre ++ [x]) = false := by
  unfold endsDD
  rw [List.reverse_append]
  simp only [List.reverse_cons, List.reverse_nil, List.nil_append, List.singleton_append]
  cases hr : pre.reverse with
  | nil => rfl
  | cons b t =>
    have : b ∈ pre := by
      have : b ∈ pre.reverse := by rw [hr]; simp
      exact List.mem_reverse.1 this
    have hb : b ≠ DOLLAR := fun e => h (e ▸ this)
    simp [hb]

theorem trimDD_of_not_mem {s : Bytes} (h : DOLLAR ∉ s) : trimDD s = s := by
  simp [trimDD, endsDD_false_of_not_mem h]

theorem trimDD_snoc1 {pre : Bytes} (x : UInt8) (h : DOLLAR ∉ pre) : trimDD (pre ++ [x]) = pre ++ [x] := by
  simp [trimDD, endsDD_snoc1 x h]

theorem trimDD_snoc2 (pre : Bytes) : trimDD (pre ++ [DOLLAR, DOLLAR]) = pre ++ [DOLLAR] := by
  have h1 : endsDD (pre ++ [DOLLAR, DOLLAR]) = true := by
    unfold endsDD
    rw [List.reverse_append]
    simp
  have h2 : pre ++ [DOLLAR, DOLLAR] = (pre ++ [DOLLAR]) ++ [DOLLAR] := by simp
  rw [trimDD, h1, if_pos rfl, h2, List.dropLast_concat]

theorem render_append (ps qs : List Part) : render (ps ++ qs) = render ps ++ render qs := by
  simp [render, List.flatMap_append]

theorem render_single (p : Part) : render [p] = renderPart p := by simp [render]

/-! ### the specification on runs of ordinary bytes, and inside a hole -/

theorem spec_ord {c : UInt8} (h : c ≠ DOLLAR) (off : Nat) (t : Bytes) :
    spec none off (c :: t) = (spec none (off + 1) t).cons (.ch c) := by
  cases t with
  | nil => simp [spec, SpecRes.cons]
  | cons d r => simp [spec, h]

theorem spec_pre : ∀ (pre : Bytes) (off : Nat) (rest : Bytes), DOLLAR ∉ pre →
    spec none off (pre ++ rest) = (spec none (off + pre.length) rest).prepend (pre.map .ch)
  | [], off, rest, _ => by simp [prepend_nil]
  | c :: pre, off, rest, h => by
    have hc : c ≠ DOLLAR := fun e => h (by simp [e])
    have hp : DOLLAR ∉ pre := fun e => h (by simp [e])
    have ha : off + 1 + pre.length = off + (c :: pre).length := by simp; omega
    rw [List.cons_append, spec_ord hc, spec_pre pre (off + 1) rest hp, cons_prepend, ha]
    rfl

theorem spec_hole_close : ∀ (e : Bytes) (st off : Nat) (rest : Bytes), RBRACE ∉ e →
    spec (some st) off (e ++ RBRACE :: rest) =
      (spec none (off + e.length + 1) rest).cons (.hole st (off + e.length))
  | [], st, off, rest, _ => by simp [spec]
  | c :: e, st, off, rest, h => by
    have hc : c ≠ RBRACE := fun x => h (by simp [x])
    have he : RBRACE ∉ e := fun x => h (by simp [x])
    have ha : off + 1 + e.length = off + (c :: e).length := by simp; omega
    rw [List.cons_append]
    simp only [spec, hc, if_false]
    rw [spec_hole_close e st (off + 1) rest he, ha]

theorem spec_hole_open : ∀ (e : Bytes) (st off : Nat), RBRACE ∉ e →
    spec (some st) off e =
      if st = off + e.length then .ok [.ch DOLLAR, .ch LBRACE] else .unterminated (st - 1)
  | [], st, off, _ => by simp [spec]
  | c :: e, st, off, h => by
    have hc : c ≠ RBRACE := fun x => h (by simp [x])
    have he : RBRACE ∉ e := fun x => h (by simp [x])
    have ha : off + 1 + e.length = off + (c :: e).length := by simp; omega
    simp only [spec, hc, if_false]
    rw [spec_hole_open e st (off + 1) he, ha]

/-! ### `hasExtra` is "contains `$$` or `${`" -/

theorem cs_cons_ne {d : UInt8} (h : d ≠ DOLLAR) (r : Bytes) :
    containsSpecial (d :: r) = containsSpecial r := by
  cases r with
  | nil => rfl
  | cons x r' => simp [containsSpecial, h]

theorem hasExtra_eq : ∀ (n : Nat) (t : Bytes), t.length ≤ n → hasExtra t = containsSpecial t := by
  intro n
  induction n with
  | zero => intro t h; cases t with
    | nil => rfl
    | cons _ _ => simp at h
  | succ n ih =>
    intro t h
    match t with
    | [] => rfl
    | [_] => rfl
    | c :: d :: r =>
      by_cases hc : c = DOLLAR
      · by_cases hd : d = LBRACE ∨ d = DOLLAR
        · rcases hd with hd | hd <;> simp [hasExtra, containsSpecial, hc, hd]
        · have hd1 : d ≠ LBRACE := fun e => hd (Or.inl e)
          have hd2 : d ≠ DOLLAR := fun e => hd (Or.inr e)
          have := ih r (by simp at h; omega)
          simp [hasExtra, containsSpecial, hc, hd1, hd2, cs_cons_ne hd2, this]
      · have := ih (d :: r) (by simp at h ⊢; omega)
        simp [hasExtra, containsSpecial, hc, this]

theorem cs_pre : ∀ (pre : Bytes) (rest : Bytes), DOLLAR ∉ pre →
    containsSpecial (pre ++ rest) = containsSpecial rest
  | [], _, _ => rfl
  | c :: pre, rest, h => by
    have hc : c ≠ DOLLAR := fun e => h (by simp [e])
    have hp : DOLLAR ∉ pre := fun e => h (by simp [e])
    rw [List.cons_append, cs_cons_ne hc, cs_pre pre rest hp]

/-! ## the loop against the specification -/

/-- What `stringLitEx` must return in a state (`extra`, `parts`, remaining `text`) given the
grammar's reading `sp` of the remaining text. -/
def Agrees (extra : Bool) (parts : List Part) (text : Bytes) (sp : SpecRes) (r : Option Res) : Prop :=
  match sp with
  | .ok items =>
      (extra = false ∧ r = some ⟨none, none⟩ ∧ items = text.map .ch) ∨
      (∃ ps, r = some ⟨some ps, none⟩ ∧ render ps = render parts ++ items)
  | .unterminated off => ∃ ps, r = some ⟨some ps, some (.unterminated off)⟩
  | .neither off =>
      r = some ⟨none, if extra || containsSpecial text then some (.neither off) else none⟩

/-- lifting the result of the remaining passes over a consumed special (`$$` or `${…}`) -/
theorem agrees_lift {extra : Bool} {parts parts' : List Part} {text text' : Bytes}
    {sp' : SpecRes} {r : Option Res} (pre : List Item)
    (h : Agrees true parts' text' sp' r)
    (hr : render parts' = render parts ++ pre)
    (hcs : containsSpecial text = true) :
    Agrees extra parts text (sp'.prepend pre) r := by
  cases sp' with
  | ok items =>
    rcases h with ⟨h0, _⟩ | ⟨ps, h1, h2⟩
    · cases h0
    · exact Or.inr ⟨ps, h1, by rw [h2, hr, List.append_assoc]⟩
  | unterminated off => exact h
  | neither off =>
    simp only [Agrees, SpecRes.prepend, Bool.true_or, if_true] at h ⊢
    simp [h, hcs]

theorem cs_special (pre : Bytes) (d : UInt8) (rest : Bytes) (hd : d = DOLLAR ∨ d = LBRACE)
    (hp : DOLLAR ∉ pre) : containsSpecial (pre ++ DOLLAR :: d :: rest) = true := by
  rw [cs_pre pre _ hp]
  rcases hd with hd | hd <;> simp [containsSpecial, hd]

theorem loop_spec : ∀ (fuel : Nat) (parts : List Part) (pos : Nat) (text : Bytes) (extra : Bool),
    text.length < fuel →
    Agrees extra parts text (spec none pos text) (loop fuel parts pos text extra) := by
  intro fuel
  induction fuel with
  | zero => intro _ _ text _ h; omega
  | succ fuel ih =>
    intro parts pos text extra hlen
    -- the `normal:` exit with a text that reads as itself
    have normal_ok : ∀ (r : Option Res), trimDD text = text → spec none pos text = .ok (text.map .ch) →
        r = (if extra then some ⟨some (parts ++ [.str text]), none⟩ else some ⟨none, none⟩) →
        Agrees extra parts text (spec none pos text) r := by
      intro r ht hs hr
      rw [hs]
      cases extra with
      | false => exact Or.inl ⟨rfl, by simpa using hr, rfl⟩
      | true =>
        refine Or.inr ⟨parts ++ [.str text], by simpa using hr, ?_⟩
        rw [render_append, render_single, renderPart, ht]
    cases hidx : indexByte DOLLAR text with
    | none =>
      have hno := indexByte_none hidx
      have hs : spec none pos text = .ok (text.map .ch) := by
        have := spec_pre text pos [] hno
        simpa [spec, SpecRes.prepend] using this
      apply normal_ok _ (trimDD_of_not_mem hno) hs
      simp [loop, hidx]
    | some at_ =>
      obtain ⟨pre, tail, rfl, hpre, rfl⟩ := indexByte_some hidx
      have hdrop := drop_len_succ pre DOLLAR tail
      cases tail with
      | nil =>
        -- `$` is the last byte
        have hs : spec none pos (pre ++ [DOLLAR]) = .ok ((pre ++ [DOLLAR]).map .ch) := by
          rw [spec_pre pre pos [DOLLAR] hpre]
          simp [spec, SpecRes.prepend]
        apply normal_ok _ (trimDD_snoc1 DOLLAR hpre) hs
        simp [loop, hidx, hdrop]
      | cons c left =>
        by_cases hcb : c = LBRACE
        · subst hcb
          by_cases hleft : left = []
          · subst hleft
            -- "...${" : the text is kept as it is
            have hs : spec none pos (pre ++ [DOLLAR, LBRACE]) = .ok ((pre ++ [DOLLAR, LBRACE]).map .ch) := by
              rw [spec_pre pre pos [DOLLAR, LBRACE] hpre]
              have hne : (LBRACE : UInt8) ≠ DOLLAR := by decide
              simp [spec, SpecRes.prepend, hne]
            have ht : trimDD (pre ++ [DOLLAR, LBRACE]) = pre ++ [DOLLAR, LBRACE] := by
              have h1 : endsDD (pre ++ [DOLLAR, LBRACE]) = false := by
                unfold endsDD
                rw [List.reverse_append]
                have hne : (LBRACE : UInt8) ≠ DOLLAR := by decide
                simp [hne]
              simp [trimDD, h1]
            rw [hs]
            refine Or.inr ⟨parts ++ [.str (pre ++ [DOLLAR, LBRACE])], ?_, ?_⟩
            · simp [loop, hidx, hdrop]
            · rw [render_append, render_single, renderPart, ht]
          · have hne : (LBRACE : UInt8) ≠ DOLLAR := by decide
            have hsp : spec none pos (pre ++ DOLLAR :: LBRACE :: left) =
                (spec (some (pos + pre.length + 2)) (pos + pre.length + 2) left).prepend
                  (pre.map .ch) := by
              rw [spec_pre pre pos _ hpre]
              simp [spec, hne]
            cases hend : indexByte RBRACE left with
            | none =>
              have hno := indexByte_none hend
              rw [hsp, spec_hole_open _ _ _ hno]
              have hpos : 0 < left.length := List.length_pos_iff.2 hleft
              have : ¬ (pos + pre.length + 2 = pos + pre.length + 2 + left.length) := by omega
              simp only [this, if_false, SpecRes.prepend, Agrees]
              refine ⟨parts ++ [.str (pre ++ DOLLAR :: LBRACE :: left)], ?_⟩
              have h1 : pos + pre.length + 2 - 1 = pos + pre.length + 1 := by omega
              simp [loop, hidx, hdrop, hend, hleft, h1]
            | some end_ =>
              obtain ⟨e, rest, rfl, he, rfl⟩ := indexByte_some hend
              rw [hsp, spec_hole_close e _ _ rest he, cons_eq_prepend, prepend_prepend]
              -- parts after this pass
              let parts2 : List Part :=
                (if pre.length ≠ 0 then parts ++ [.str (pre)] else parts) ++
                  [.expr (pos + (pre.length + 2)) (pos + (pre.length + 2) + e.length)]
              have hr2 : render parts2 = render parts ++
                  (pre.map .ch ++ [.hole (pos + pre.length + 2) (pos + pre.length + 2 + e.length)]) := by
                have h1 : render (if pre.length ≠ 0 then parts ++ [.str pre] else parts) =
                    render parts ++ pre.map .ch := by
                  by_cases hz : pre.length = 0
                  · have : pre = [] := List.length_eq_zero_iff.1 hz
                    simp [this]
                  · simp only [ne_eq, hz, not_false_eq_true, if_true]
                    rw [render_append, render_single, renderPart, trimDD_of_not_mem hpre]
                simp only [parts2]
                rw [render_append, h1, render_single, renderPart, List.append_assoc]
                simp [Nat.add_assoc]
              have hcs : containsSpecial (pre ++ DOLLAR :: LBRACE :: (e ++ RBRACE :: rest)) = true :=
                cs_special pre LBRACE _ (Or.inr rfl) hpre
              have htake : (pre ++ DOLLAR :: LBRACE :: (e ++ RBRACE :: rest)).take pre.length = pre :=
                List.take_left
              have hdrop2 : (e ++ RBRACE :: rest).drop (e.length + 1) = rest := drop_len_succ e RBRACE rest
              have hloop : loop (fuel + 1) parts pos (pre ++ DOLLAR :: LBRACE :: (e ++ RBRACE :: rest)) extra =
                  (if rest ≠ [] then loop fuel parts2 (pos + (pre.length + 2) + e.length + 1) rest true
                   else some ⟨some parts2, none⟩) := by
                simp only [loop, hidx, hdrop, if_true, hend, hleft, if_false, htake, hdrop2, parts2]
              rw [hloop]
              by_cases hrest : rest = []
              · subst hrest
                simp only [ne_eq, not_true_eq_false, if_false]
                have : spec none (pos + pre.length + 2 + e.length + 1) [] = .ok [] := rfl
                rw [this]
                refine Or.inr ⟨parts2, rfl, ?_⟩
                simp [hr2]
              · simp only [ne_eq, hrest, not_false_eq_true, if_true]
                have hl2 : rest.length < fuel := by
                  simp at hlen; omega
                have := ih parts2 (pos + (pre.length + 2) + e.length + 1) rest true hl2
                have hpos : pos + (pre.length + 2) + e.length + 1 = pos + pre.length + 2 + e.length + 1 := by
                  omega
                rw [hpos] at this
                exact agrees_lift _ this hr2 hcs
        · by_cases hcd : c = DOLLAR
          · subst hcd
            -- `$$`
            have hsp : spec none pos (pre ++ DOLLAR :: DOLLAR :: left) =
                (spec none (pos + pre.length + 2) left).prepend (pre.map .ch ++ [.ch DOLLAR]) := by
              rw [spec_pre pre pos _ hpre]
              cases left with
              | nil => simp [spec, SpecRes.prepend, SpecRes.cons]
              | cons x y => simp [spec, cons_eq_prepend, prepend_prepend]
            let parts1 : List Part := parts ++ [.str (pre ++ [DOLLAR, DOLLAR])]
            have hr1 : render parts1 = render parts ++ (pre.map .ch ++ [.ch DOLLAR]) := by
              simp only [parts1]
              rw [render_append, render_single, renderPart, trimDD_snoc2]
              simp
            have hcs : containsSpecial (pre ++ DOLLAR :: DOLLAR :: left) = true :=
              cs_special pre DOLLAR _ (Or.inl rfl) hpre
            have hloop : loop (fuel + 1) parts pos (pre ++ DOLLAR :: DOLLAR :: left) extra =
                (if left ≠ [] then loop fuel parts1 (pos + (pre.length + 2)) left true
                 else some ⟨some parts1, none⟩) := by
              have hne : (DOLLAR : UInt8) ≠ LBRACE := by decide
              simp only [loop, hidx, hdrop, hne, if_false, if_true, take_len2, parts1]
            rw [hloop, hsp]
            by_cases hleft : left = []
            · subst hleft
              simp only [ne_eq, not_true_eq_false, if_false]
              have : spec none (pos + pre.length + 2) [] = .ok [] := rfl
              rw [this]
              refine Or.inr ⟨parts1, rfl, ?_⟩
              simp [hr1]
            · simp only [ne_eq, hleft, not_false_eq_true, if_true]
              have hl2 : left.length < fuel := by simp at hlen; omega
              have := ih parts1 (pos + (pre.length + 2)) left true hl2
              have hpos : pos + (pre.length + 2) = pos + pre.length + 2 := by omega
              rw [hpos] at this
              exact agrees_lift _ this hr1 hcs
          · -- a `$` followed by something else
            have hsp : spec none pos (pre ++ DOLLAR :: c :: left) = .neither (pos + pre.length) := by
              rw [spec_pre pre pos _ hpre]
              simp [spec, hcb, hcd, SpecRes.prepend]
            have hcs : containsSpecial (pre ++ DOLLAR :: c :: left) = hasExtra (c :: left) := by
              rw [cs_pre pre _ hpre, hasExtra_eq _ _ (Nat.le_refl _)]
              have : containsSpecial (DOLLAR :: c :: left) = containsSpecial (c :: left) := by
                simp [containsSpecial, hcb, hcd]
              exact this
            rw [hsp]
            simp only [Agrees, hcs]
            simp [loop, hidx, hdrop, hcb, hcd]

/-! ## position bookkeeping -/

/-- `[a, b)` is the expression of a `${…}` of the whole text `w`: preceded by `${`, followed by
`}`, and containing no `}`. -/
def GoodSpan (w : Bytes) (a b : Nat) : Prop :=
  ∃ e rest, 2 ≤ a ∧ w.drop (a - 2) = DOLLAR :: LBRACE :: (e ++ RBRACE :: rest) ∧
    a + e.length = b ∧ RBRACE ∉ e

def PartsGood (w : Bytes) (ps : List Part) : Prop :=
  ∀ a b, Part.expr a b ∈ ps → GoodSpan w a b

theorem loop_pos (w : Bytes) : ∀ (fuel : Nat) (parts : List Part) (pos : Nat) (text : Bytes)
    (extra : Bool) (ps : List Part) (e : Option Err),
    text = w.drop pos → PartsGood w parts →
    loop fuel parts pos text extra = some ⟨some ps, e⟩ → PartsGood w ps := by
  intro fuel
  induction fuel with
  | zero => intro _ _ _ _ _ _ _ _ h; simp [loop] at h
  | succ fuel ih =>
    intro parts pos text extra ps err htext hgood hres
    have hnormal : ∀ {t : Bytes} {x : Option Err}, (some (⟨some (parts ++ [.str t]), x⟩ : Res)) = some ⟨some ps, err⟩ →
        PartsGood w ps := by
      intro t x h
      simp only [Option.some.injEq, Res.mk.injEq] at h
      obtain ⟨h1, _⟩ := h
      subst h1
      intro a b hm
      simp only [List.mem_append, List.mem_singleton, reduceCtorEq, or_false] at hm
      exact hgood a b hm
    cases hidx : indexByte DOLLAR text with
    | none =>
      simp only [loop, hidx] at hres
      cases extra with
      | false => simp at hres
      | true => exact hnormal (by simpa using hres)
    | some at_ =>
      obtain ⟨pre, tail, rfl, hpre, rfl⟩ := indexByte_some hidx
      have hdrop := drop_len_succ pre DOLLAR tail
      cases tail with
      | nil =>
        simp only [loop, hidx, hdrop] at hres
        cases extra with
        | false => simp at hres
        | true => exact hnormal (by simpa using hres)
      | cons c left =>
        by_cases hcb : c = LBRACE
        · subst hcb
          by_cases hleft : left = []
          · subst hleft
            simp only [loop, hidx, hdrop, if_true] at hres
            exact hnormal hres
          · cases hend : indexByte RBRACE left with
            | none =>
              simp only [loop, hidx, hdrop, hend, if_true, hleft, if_false] at hres
              exact hnormal hres
            | some end_ =>
              obtain ⟨e, rest, rfl, he, rfl⟩ := indexByte_some hend
              have htake : (pre ++ DOLLAR :: LBRACE :: (e ++ RBRACE :: rest)).take pre.length = pre :=
                List.take_left
              have hdrop2 : (e ++ RBRACE :: rest).drop (e.length + 1) = rest := drop_len_succ e RBRACE rest
              simp only [loop, hidx, hdrop, if_true, hend, hleft, if_false, htake, hdrop2] at hres
              -- the new expression part is a good span of `w`
              have hspan : GoodSpan w (pos + (pre.length + 2)) (pos + (pre.length + 2) + e.length) := by
                refine ⟨e, rest, by omega, ?_, rfl, he⟩
                have h1 : pos + (pre.length + 2) - 2 = pos + pre.length := by omega
                rw [h1, ← List.drop_drop, ← htext, List.drop_left]
              have hgood2 : PartsGood w ((if pre.length ≠ 0 then parts ++ [.str pre] else parts) ++
                  [.expr (pos + (pre.length + 2)) (pos + (pre.length + 2) + e.length)]) := by
                intro a b hm
                simp only [List.mem_append, List.mem_singleton, Part.expr.injEq] at hm
                rcases hm with hm | ⟨rfl, rfl⟩
                · by_cases hz : pre.length = 0
                  · simp only [hz, ne_eq, not_true_eq_false, if_false] at hm
                    exact hgood a b hm
                  · simp only [ne_eq, hz, not_false_eq_true, if_true, List.mem_append,
                      List.mem_singleton, reduceCtorEq, or_false] at hm
                    exact hgood a b hm
                · exact hspan
              by_cases hrest : rest = []
              · subst hrest
                simp only [ne_eq, not_true_eq_false, if_false, Option.some.injEq, Res.mk.injEq] at hres
                obtain ⟨h1, _⟩ := hres
                subst h1
                exact hgood2
              · simp only [ne_eq, hrest, not_false_eq_true, if_true] at hres
                refine ih _ _ rest true ps err ?_ hgood2 hres
                have : w.drop (pos + (pre.length + 2) + e.length + 1) =
                    (w.drop pos).drop (pre.length + 2 + e.length + 1) := by
                  rw [List.drop_drop]; congr 1; omega
                rw [this, ← htext]
                have h3 : pre ++ DOLLAR :: LBRACE :: (e ++ RBRACE :: rest) =
                    (pre ++ DOLLAR :: LBRACE :: e) ++ RBRACE :: rest := by simp
                have h4 : pre.length + 2 + e.length + 1 = (pre ++ DOLLAR :: LBRACE :: e).length + 1 := by
                  simp; omega
                rw [h3, h4, drop_len_succ]
        · by_cases hcd : c = DOLLAR
          · subst hcd
            have hne : (DOLLAR : UInt8) ≠ LBRACE := by decide
            simp only [loop, hidx, hdrop, hne, if_false, if_true, take_len2] at hres
            have hgood1 : PartsGood w (parts ++ [.str (pre ++ [DOLLAR, DOLLAR])]) := by
              intro a b hm
              simp only [List.mem_append, List.mem_singleton, reduceCtorEq, or_false] at hm
              exact hgood a b hm
            by_cases hleft : left = []
            · subst hleft
              simp only [ne_eq, not_true_eq_false, if_false, Option.some.injEq, Res.mk.injEq] at hres
              obtain ⟨h1, _⟩ := hres
              subst h1
              exact hgood1
            · simp only [ne_eq, hleft, not_false_eq_true, if_true] at hres
              refine ih _ _ left true ps err ?_ hgood1 hres
              have : w.drop (pos + (pre.length + 2)) = (w.drop pos).drop (pre.length + 2) := by
                rw [List.drop_drop]
              rw [this, ← htext]
              have h3 : pre ++ DOLLAR :: DOLLAR :: left = (pre ++ [DOLLAR]) ++ DOLLAR :: left := by simp
              have h4 : pre.length + 2 = (pre ++ [DOLLAR]).length + 1 := by simp
              rw [h3, h4, drop_len_succ]
          · simp [loop, hidx, hdrop, hcb, hcd] at hres

/-! ## Property theorems (C05) -/

/-- Termination: the goto loop ends within `len(text) + 1` passes. -/
theorem C05_split_total (t : Bytes) : splitParts t ≠ none := by
  have h := loop_spec (t.length + 1) [] 0 t false (Nat.lt_succ_self _)
  unfold splitParts splitFuel
  intro hn
  rw [hn] at h
  cases hs : spec none 0 t with
  | ok items => rw [hs] at h; rcases h with ⟨_, h, _⟩ | ⟨_, h, _⟩ <;> cases h
  | unterminated off => rw [hs] at h; obtain ⟨_, h⟩ := h; cases h
  | neither off => rw [hs] at h; cases h

/-- The implementation reads a literal as the grammar `(char | "$$" | "${" e "}")*` does:
* no error in the grammar's reading: the implementation reports none, and the parts (after
  `compileStringLitEx` cut the second `$` of `$$`) — or the text itself when the literal gets no
  `Extra` — are the same literal bytes and holes, in the same order;
* `${` without `}`: the "doesn't end with }" error at the `{`;
* a `$` followed by something else (not last): the "neither" error at that `$` — unless the
  literal contains no `$$` / `${` at all, in which case it is an ordinary string (every `$`
  stands for itself). -/
theorem C05_split_spec (t : Bytes) :
    match spec none 0 t with
    | .ok items => implItems t = some items
    | .unterminated off => ∃ ps, splitParts t = some ⟨some ps, some (.unterminated off)⟩
    | .neither off =>
        if containsSpecial t then splitParts t = some ⟨none, some (.neither off)⟩
        else implItems t = some (t.map .ch) := by
  have h := loop_spec (t.length + 1) [] 0 t false (Nat.lt_succ_self _)
  have hsp : splitParts t = loop (t.length + 1) [] 0 t false := rfl
  cases hs : spec none 0 t with
  | ok items =>
    rw [hs] at h
    rcases h with ⟨_, h, hi⟩ | ⟨ps, h, hi⟩
    · simp [implItems, hsp, h, hi]
    · simp only [implItems, hsp, h]
      simpa [render] using hi
  | unterminated off =>
    rw [hs] at h
    obtain ⟨ps, h⟩ := h
    exact ⟨ps, by rw [hsp, h]⟩
  | neither off =>
    rw [hs] at h
    simp only [Agrees, Bool.false_or] at h
    by_cases hc : containsSpecial t = true
    · simp only [hc, if_true] at h ⊢
      rw [hsp, h]
    · simp only [hc] at h ⊢
      simp [implItems, hsp, h]

/-- Position bookkeeping: every expression part `[off, end)` handed to `stringLitExpr` is
exactly the bytes between a `${` and the first `}` after it (in every outcome, also when an
error is reported later in the literal). -/
theorem C05_split_pos (t : Bytes) (ps : List Part) (e : Option Err)
    (h : splitParts t = some ⟨some ps, e⟩) :
    ∀ a b, Part.expr a b ∈ ps → GoodSpan t a b :=
  loop_pos t (t.length + 1) [] 0 t false ps e (by simp) (by intro a b hm; cases hm) h

/-- `$$` contributes exactly one `$` (and the bytes around it are untouched). -/
theorem C05_dollar_escape (a b : Bytes) (ha : DOLLAR ∉ a) (hb : DOLLAR ∉ b) :
    implItems (a ++ DOLLAR :: DOLLAR :: b) = some ((a ++ DOLLAR :: b).map .ch) := by
  have h := C05_split_spec (a ++ DOLLAR :: DOLLAR :: b)
  have hs : spec none 0 (a ++ DOLLAR :: DOLLAR :: b) = .ok ((a ++ DOLLAR :: b).map .ch) := by
    rw [spec_pre a 0 _ ha]
    have h2 : spec none (0 + a.length) (DOLLAR :: DOLLAR :: b) =
        (spec none (0 + a.length + 2) b).cons (.ch DOLLAR) := by
      cases b with
      | nil => simp [spec]
      | cons x y => simp [spec]
    have h3 := spec_pre b (0 + a.length + 2) [] hb
    simp only [List.append_nil] at h3
    rw [h2, h3]
    simp [spec, SpecRes.prepend, SpecRes.cons]
  rw [hs] at h
  exact h

/-! ### evaluation of the lowered expression -/

theorem evalArgs_map (strOf : Val → Bytes) : ∀ ps : List Piece,
    evalArgs strOf (ps.map lowerPiece) = (ps.flatMap (pieceString strOf), holeIds ps)
  | [] => rfl
  | p :: t => by
    have ih := evalArgs_map strOf t
    cases p with
    | text s => simp [evalArgs, evalArg, lowerPiece, pieceString, holeIds, ih]
    | hole h =>
      cases hv : h.val <;>
        simp [evalArgs, evalArg, lowerPiece, pieceString, holeIds, ih, hv, Val.isString]

/-- The lowered expression evaluates to the concatenation of the pieces' strings (literal
text; the value itself for strings; `strOf` for everything else). -/
theorem C05_concat_lower (strOf : Val → Bytes) (ps : List Piece) :
    (evalLowered strOf (lower ps)).1 = ps.flatMap (pieceString strOf) := by
  match ps with
  | [] => rfl
  | [p] =>
    cases p with
    | text s => simp [lower, evalLowered, evalArg, lowerPiece, pieceString]
    | hole h =>
      cases hv : h.val <;>
        simp [lower, evalLowered, evalArg, lowerPiece, pieceString, hv, Val.isString]
  | p :: q :: t =>
    simp only [lower, evalLowered]
    rw [evalArgs_map]

/-- Embedded expressions are evaluated exactly once each, left to right: the event trace of
the lowered expression is the list of the holes' ids in source order. -/
theorem C05_eval_once_left_to_right (strOf : Val → Bytes) (ps : List Piece) :
    (evalLowered strOf (lower ps)).2 = holeIds ps := by
  match ps with
  | [] => rfl
  | [p] =>
    cases p with
    | text s => simp [lower, evalLowered, evalArg, lowerPiece, holeIds]
    | hole h =>
      cases hv : h.val <;>
        simp [lower, evalLowered, evalArg, lowerPiece, holeIds, hv, Val.isString]
  | p :: q :: t =>
    simp only [lower, evalLowered]
    rw [evalArgs_map]

/-! Non-vacuity -/
-- "a${x}$$"  →  a, hole [3,4), $
example : implItems [0x61, 0x24, 0x7b, 0x78, 0x7d, 0x24, 0x24] = some [.ch 0x61, .hole 3 4, .ch 0x24] := by decide
example : spec none 0 [0x61, 0x24, 0x7b, 0x78, 0x7d, 0x24, 0x24] = .ok [.ch 0x61, .hole 3 4, .ch 0x24] := by decide
-- "a$b" is an ordinary string; "a$b$$" is an error at offset 1
example : splitParts [0x61, 0x24, 0x62] = some ⟨none, none⟩ := by decide
example : splitParts [0x61, 0x24, 0x62, 0x24, 0x24] = some ⟨none, some (.neither 1)⟩ := by decide
example : spec none 0 [0x61, 0x24, 0x62, 0x24, 0x24] = .neither 1 := by decide
-- "${x" : unterminated, reported at the `{`
example : splitParts [0x24, 0x7b, 0x78] = some ⟨some [.str [0x24, 0x7b, 0x78]], some (.unterminated 1)⟩ := by decide
-- "${{x}}" : the first `}` ends the expression
example : splitParts [0x24, 0x7b, 0x7b, 0x78, 0x7d, 0x7d] = some ⟨some [.expr 2 4, .str [0x7d]], none⟩ := by decide
example : GoodSpan [0x24, 0x7b, 0x7b, 0x78, 0x7d, 0x7d] 2 4 :=
  ⟨[0x7b, 0x78], [0x7d], by decide, by decide, by decide, by decide⟩
example : evalLowered (fun _ => [0x35]) (lower [.text [0x61], .hole ⟨1, .int 5⟩, .hole ⟨2, .str [0x62]⟩])
    = ([0x61, 0x35, 0x62], [1, 2]) := by decide

end GopModel.Interp
