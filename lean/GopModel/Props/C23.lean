/-
C23 — import sorting keeps the import set.
Property theorems about `GopModel.ImportSort.sortImports` (model of ast.SortImports as called by
format.Source).
-/
import GopModel.Model.ImportSort
namespace GopModel.ImportSort

/-! ## Strict total orders and their lexicographic product -/

structure StrictTotal {α : Type} (lt : α → α → Bool) : Prop where
  irrefl : ∀ a, lt a a = false
  trans : ∀ a b c, lt a b = true → lt b c = true → lt a c = true
  tri : ∀ a b, lt a b = false → lt b a = false → a = b

def lexLt {α β : Type} [DecidableEq α] (lt1 : α → α → Bool) (lt2 : β → β → Bool)
    (a b : α × β) : Bool :=
  if a.1 = b.1 then lt2 a.2 b.2 else lt1 a.1 b.1

theorem StrictTotal.asymm {α : Type} {lt : α → α → Bool} (h : StrictTotal lt) (a b : α)
    (hab : lt a b = true) : lt b a = false := by
  cases hba : lt b a with
  | false => rfl
  | true => have := h.trans a b a hab hba; rw [h.irrefl] at this; cases this

theorem StrictTotal.lex {α β : Type} [DecidableEq α] {lt1 : α → α → Bool} {lt2 : β → β → Bool}
    (h1 : StrictTotal lt1) (h2 : StrictTotal lt2) : StrictTotal (lexLt lt1 lt2) := by
  refine ⟨?_, ?_, ?_⟩
  · intro a; simp [lexLt, h2.irrefl]
  · intro a b c hab hbc
    unfold lexLt at hab hbc ⊢
    by_cases e1 : a.1 = b.1
    · rw [if_pos e1] at hab
      by_cases e2 : b.1 = c.1
      · rw [if_pos e2] at hbc
        rw [if_pos (e1.trans e2)]
        exact h2.trans _ _ _ hab hbc
      · rw [if_neg e2] at hbc
        rw [if_neg (by rw [e1]; exact e2), e1]
        exact hbc
    · rw [if_neg e1] at hab
      by_cases e2 : b.1 = c.1
      · rw [if_pos e2] at hbc
        rw [if_neg (by rw [← e2]; exact e1), ← e2]
        exact hab
      · rw [if_neg e2] at hbc
        have hac := h1.trans _ _ _ hab hbc
        have e3 : ¬ a.1 = c.1 := by
          intro e; rw [e] at hab
          have := h1.asymm _ _ hab; rw [hbc] at this; cases this
        rw [if_neg e3]; exact hac
  · intro a b hab hba
    unfold lexLt at hab hba
    by_cases e1 : a.1 = b.1
    · rw [if_pos e1] at hab
      rw [if_pos e1.symm] at hba
      exact Prod.ext e1 (h2.tri _ _ hab hba)
    · rw [if_neg e1] at hab
      rw [if_neg (fun e => e1 e.symm)] at hba
      exact absurd (h1.tri _ _ hab hba) e1

/-- `le a b := ¬ b < a` is transitive and total for a strict total order. -/
theorem StrictTotal.le_trans {α : Type} {lt : α → α → Bool} (h : StrictTotal lt) (a b c : α)
    (hab : lt b a = false) (hbc : lt c b = false) : lt c a = false := by
  cases hca : lt c a with
  | false => rfl
  | true =>
    cases hab' : lt a b with
    | true => have := h.trans c a b hca hab'; rw [hbc] at this; cases this
    | false =>
      have e := h.tri a b hab' hab
      rw [e] at hca; rw [hbc] at hca; cases hca

theorem StrictTotal.le_total {α : Type} {lt : α → α → Bool} (h : StrictTotal lt) (a b : α) :
    lt b a = false ∨ lt a b = false := by
  cases hba : lt b a with
  | false => exact Or.inl rfl
  | true => exact Or.inr (h.asymm _ _ hba)

/-! ## Go's string order -/

theorem bytesLt_strictTotal : StrictTotal bytesLt := by
  refine ⟨?_, ?_, ?_⟩
  · intro a; induction a with
    | nil => rfl
    | cons x t ih => simp [bytesLt, ih]
  · intro a
    induction a with
    | nil =>
      intro b c hab hbc
      cases b with
      | nil => simp [bytesLt] at hab
      | cons y bt => cases c with
        | nil => simp [bytesLt] at hbc
        | cons z ct => rfl
    | cons x at' ih =>
      intro b c hab hbc
      cases b with
      | nil => simp [bytesLt] at hab
      | cons y bt =>
        cases c with
        | nil => simp [bytesLt] at hbc
        | cons z ct =>
          simp only [bytesLt] at hab hbc ⊢
          by_cases hxy : x.toNat < y.toNat
          · by_cases hyz : y.toNat < z.toNat
            · have : x.toNat < z.toNat := by omega
              simp [this]
            · by_cases hzy : z.toNat < y.toNat
              · simp [hyz, hzy] at hbc
              · have : x.toNat < z.toNat := by omega
                simp [this]
          · by_cases hyx : y.toNat < x.toNat
            · simp [hxy, hyx] at hab
            · simp only [hxy, hyx, if_false] at hab
              by_cases hyz : y.toNat < z.toNat
              · have : x.toNat < z.toNat := by omega
                simp [this]
              · by_cases hzy : z.toNat < y.toNat
                · simp [hyz, hzy] at hbc
                · simp only [hyz, hzy, if_false] at hbc
                  have h1 : ¬ x.toNat < z.toNat := by omega
                  have h2 : ¬ z.toNat < x.toNat := by omega
                  simp only [h1, h2, if_false]
                  exact ih bt ct hab hbc
  · intro a
    induction a with
    | nil =>
      intro b hab _
      cases b with
      | nil => rfl
      | cons y bt => simp [bytesLt] at hab
    | cons x at' ih =>
      intro b hab hba
      cases b with
      | nil => simp [bytesLt] at hba
      | cons y bt =>
        simp only [bytesLt] at hab hba
        by_cases hxy : x.toNat < y.toNat
        · simp [hxy] at hab
        · by_cases hyx : y.toNat < x.toNat
          · simp [hyx] at hba
          · simp only [hxy, hyx, if_false] at hab hba
            have hx : x = y := UInt8.toNat_inj.mp (by omega)
            rw [hx, ih bt hab hba]

/-- The sort key: (path, (name, comment text)). -/
def Spec.key (s : Spec) : Bytes × (Bytes × Bytes) := (s.path, (s.name, s.commentText))

def keyLt : Bytes × (Bytes × Bytes) → Bytes × (Bytes × Bytes) → Bool :=
  lexLt bytesLt (lexLt bytesLt bytesLt)

theorem keyLt_strictTotal : StrictTotal keyLt :=
  bytesLt_strictTotal.lex (bytesLt_strictTotal.lex bytesLt_strictTotal)

theorem less_eq_keyLt (a b : Spec) : less a b = keyLt a.key b.key := by
  unfold less keyLt lexLt Spec.key
  by_cases e1 : a.path = b.path <;> by_cases e2 : a.name = b.name <;> simp [e1, e2]

/-! ## The sort -/

/-- What SortImports never changes in a spec: everything but the position. -/
def Spec.data (s : Spec) : Bytes × Bytes × Bytes × Option Bytes := (s.name, s.path, s.lit, s.comment)

/-- The identity of an import: (name, path). -/
def Spec.pair (s : Spec) : Bytes × Bytes := (s.name, s.path)

theorem insertSorted_perm (a : Spec) (l : List Spec) : (insertSorted a l).Perm (a :: l) := by
  induction l with
  | nil => exact List.Perm.refl _
  | cons b t ih =>
    simp only [insertSorted]
    split
    · exact (List.Perm.cons b ih).trans (List.Perm.swap a b t)
    · exact List.Perm.refl _

theorem sortByLess_perm (l : List Spec) : (sortByLess l).Perm l := by
  induction l with
  | nil => exact List.Perm.refl _
  | cons a t ih => exact (insertSorted_perm a _).trans (List.Perm.cons a ih)

/-- Sorted: no element is smaller than an earlier one. -/
def Sorted (l : List Spec) : Prop := l.Pairwise (fun a b => less b a = false)

theorem insertSorted_sorted (a : Spec) (l : List Spec) (h : Sorted l) : Sorted (insertSorted a l) := by
  induction l with
  | nil => simp [insertSorted, Sorted]
  | cons b t ih =>
    have hb := List.pairwise_cons.mp h
    simp only [insertSorted]
    split
    · rename_i hba
      -- b < a: b stays first
      refine List.pairwise_cons.mpr ⟨?_, ih hb.2⟩
      intro x hx
      have := (insertSorted_perm a t).subset hx
      simp only [List.mem_cons] at this
      rcases this with rfl | hxt
      · rw [less_eq_keyLt] at hba ⊢; exact keyLt_strictTotal.asymm _ _ hba
      · exact hb.1 x hxt
    · rename_i hba
      have hba' : less b a = false := by simpa using hba
      refine List.pairwise_cons.mpr ⟨?_, h⟩
      intro x hx
      simp only [List.mem_cons] at hx
      rcases hx with rfl | hxt
      · exact hba'
      · have := hb.1 x hxt
        rw [less_eq_keyLt] at this hba' ⊢
        exact keyLt_strictTotal.le_trans _ _ _ hba' this

theorem sortByLess_sorted (l : List Spec) : Sorted (sortByLess l) := by
  induction l with
  | nil => simp [sortByLess, Sorted]
  | cons a t ih => exact insertSorted_sorted a _ ih

/-! ## Dedup -/

theorem dedupe_sublist : ∀ (l : List Spec), (dedupe l).Sublist l
  | [] => List.Sublist.refl _
  | [_] => List.Sublist.refl _
  | s :: n :: t => by
    simp only [dedupe]
    split
    · exact (dedupe_sublist (n :: t)).cons _
    · exact (dedupe_sublist (n :: t)).cons_cons _

theorem collapse_spec (p n : Spec) (h : collapse p n = true) :
    n.path = p.path ∧ n.name = p.name ∧ p.comment = none := by
  unfold collapse at h
  split at h
  · cases h
  · rename_i hne
    simp only [Bool.or_eq_true, decide_eq_true_eq, not_or, Decidable.not_not, ne_eq] at hne
    exact ⟨hne.1, hne.2, by simpa using h⟩

/-- Every (name, path) of the list survives the dedup. -/
theorem dedupe_keeps_pair : ∀ (l : List Spec) (s : Spec), s ∈ l → ∃ s' ∈ dedupe l, s'.pair = s.pair
  | [], s, h => by simp at h
  | [a], s, h => ⟨s, by simpa [dedupe] using h, rfl⟩
  | a :: n :: t, s, h => by
    simp only [dedupe]
    simp only [List.mem_cons] at h
    split
    · rename_i hc
      obtain ⟨hp, hn, _⟩ := collapse_spec a n hc
      rcases h with rfl | h
      · obtain ⟨s', hs', he⟩ := dedupe_keeps_pair (n :: t) n (by simp)
        exact ⟨s', hs', by rw [he]; simp [Spec.pair, hp, hn]⟩
      · exact dedupe_keeps_pair (n :: t) s (by simpa using h)
    · rcases h with rfl | h
      · exact ⟨s, by simp, rfl⟩
      · obtain ⟨s', hs', he⟩ := dedupe_keeps_pair (n :: t) s (by simpa using h)
        exact ⟨s', List.mem_cons_of_mem _ hs', he⟩

/-- What the dedup removes: specs without comment (the kept ones plus the removed ones are the
input). -/
theorem dedupe_removed : ∀ (l : List Spec),
    ∃ removed : List Spec, (dedupe l ++ removed).Perm l ∧ ∀ r ∈ removed, r.comment = none
  | [] => ⟨[], by simp [dedupe], by simp⟩
  | [a] => ⟨[], by simp [dedupe], by simp⟩
  | a :: n :: t => by
    obtain ⟨rem, hp, hr⟩ := dedupe_removed (n :: t)
    simp only [dedupe]
    split
    · rename_i hc
      refine ⟨a :: rem, ?_, ?_⟩
      · exact (List.perm_middle).trans (List.Perm.cons a hp)
      · intro r hr'
        simp only [List.mem_cons] at hr'
        rcases hr' with rfl | h
        · exact (collapse_spec _ n hc).2.2
        · exact hr r h
    · exact ⟨rem, List.Perm.cons a hp, hr⟩

/-! ## Position reassignment -/

theorem reassign_data : ∀ (l : List Spec) (ps : List (Nat × Nat)),
    (reassign l ps).map Spec.data = l.map Spec.data
  | [], _ => by simp [reassign]
  | s :: t, [] => by simp [reassign]
  | s :: t, p :: ps => by simp [reassign, reassign_data t ps, Spec.data]

theorem reassign_pos : ∀ (l : List Spec) (ps : List (Nat × Nat)), l.length ≤ ps.length →
    (reassign l ps).map (fun s => (s.line, s.endLine)) = ps.take l.length
  | [], _, _ => by simp [reassign]
  | s :: t, [], h => by simp at h
  | s :: t, p :: ps, h => by
    simp only [reassign, List.map_cons, List.length_cons, List.take_succ_cons]
    rw [reassign_pos t ps (by simpa using h)]

/-! ## One run -/

theorem data_pair (a b : Spec) (h : a.data = b.data) : a.pair = b.pair := by
  simp only [Spec.data, Prod.mk.injEq] at h
  simp [Spec.pair, h.1, h.2.1]

theorem data_comment (a b : Spec) (h : a.data = b.data) : a.comment = b.comment := by
  simp only [Spec.data, Prod.mk.injEq] at h
  exact h.2.2.2

theorem data_key (a b : Spec) (h : a.data = b.data) : a.key = b.key := by
  simp only [Spec.data, Prod.mk.injEq] at h
  simp [Spec.key, Spec.commentText, h.1, h.2.1, h.2.2.2]

/-- `sortSpecs`: the result plus some comment-less removed specs is a permutation of the run (up
to positions); every (name, path) survives. -/
theorem sortRun_spec (run : List Spec) :
    (∃ removed : List Spec,
      ((sortRun run).map Spec.data ++ removed.map Spec.data).Perm (run.map Spec.data) ∧
      ∀ r ∈ removed, r.comment = none ∧ ∃ s ∈ sortRun run, s.pair = r.pair) ∧
    (∀ s ∈ run, ∃ s' ∈ sortRun run, s'.pair = s.pair) := by
  unfold sortRun
  split
  · exact ⟨⟨[], by simp, by simp⟩, fun s hs => ⟨s, hs, rfl⟩⟩
  · obtain ⟨rem, hp, hr⟩ := dedupe_removed (sortByLess run)
    have hkeep : ∀ s ∈ run, ∃ s' ∈ reassign (dedupe (sortByLess run)) (run.map fun s => (s.line, s.endLine)),
        s'.pair = s.pair := by
      intro s hs
      have hs' : s ∈ sortByLess run := (sortByLess_perm run).symm.subset hs
      obtain ⟨s', hs'mem, he⟩ := dedupe_keeps_pair _ s hs'
      have : s'.data ∈ (reassign (dedupe (sortByLess run)) (run.map fun s => (s.line, s.endLine))).map Spec.data := by
        rw [reassign_data]; exact List.mem_map_of_mem hs'mem
      obtain ⟨s'', hs''mem, hd⟩ := List.mem_map.mp this
      exact ⟨s'', hs''mem, by rw [data_pair _ _ hd, he]⟩
    refine ⟨⟨rem, ?_, ?_⟩, hkeep⟩
    · rw [reassign_data, ← List.map_append]
      exact (hp.map Spec.data).trans ((sortByLess_perm run).map Spec.data)
    · intro r hrm
      refine ⟨hr r hrm, ?_⟩
      have : r ∈ sortByLess run := hp.subset (List.mem_append_right _ hrm)
      exact hkeep r ((sortByLess_perm run).subset this)

/-- The data of a sorted run is sorted by (path, name, comment), hence by path. -/
def SortedByPath (l : List Spec) : Prop := l.Pairwise (fun a b => bytesLt b.path a.path = false)

theorem less_false_path (a b : Spec) (h : less b a = false) : bytesLt b.path a.path = false := by
  unfold less at h
  split at h
  · exact h
  · rename_i he
    have : b.path = a.path := by simpa using he
    rw [this]; exact bytesLt_strictTotal.irrefl _

theorem sorted_of_data_eq : ∀ (l l' : List Spec), l.map Spec.data = l'.map Spec.data → Sorted l → Sorted l' := by
  intro l l' h hs
  have hk : l.map Spec.key = l'.map Spec.key := by
    have : ∀ (m m' : List Spec), m.map Spec.data = m'.map Spec.data → m.map Spec.key = m'.map Spec.key := by
      intro m
      induction m with
      | nil => intro m' hm; cases m' with
        | nil => rfl
        | cons _ _ => simp at hm
      | cons a t ih => intro m' hm; cases m' with
        | nil => simp at hm
        | cons b t' =>
          simp only [List.map_cons, List.cons.injEq] at hm ⊢
          exact ⟨data_key a b hm.1, ih t' hm.2⟩
    exact this l l' h
  have e : ∀ m : List Spec, Sorted m ↔ (m.map Spec.key).Pairwise (fun x y => keyLt y x = false) := by
    intro m
    unfold Sorted
    rw [List.pairwise_map]
    constructor <;> intro hh <;> refine hh.imp ?_ <;> intro a b hab
    · rw [← less_eq_keyLt]; exact hab
    · rw [less_eq_keyLt]; exact hab
  rw [e] at hs ⊢
  rw [← hk]; exact hs

theorem sortRun_sorted (run : List Spec) (h : 1 < run.length) :
    Sorted (sortRun run) ∧ SortedByPath (sortRun run) := by
  have hs : Sorted (sortRun run) := by
    unfold sortRun
    split
    · omega
    · have h1 : Sorted (dedupe (sortByLess run)) := (sortByLess_sorted run).sublist (dedupe_sublist _)
      exact sorted_of_data_eq _ _ (reassign_data _ _).symm h1
  exact ⟨hs, hs.imp (fun {a b} hab => less_false_path a b hab)⟩

/-- The specs of a sorted run sit on the first positions of the original run, in order. -/
theorem sortRun_positions (run : List Spec) (h : 1 < run.length) :
    (sortRun run).map (fun s => (s.line, s.endLine)) =
      (run.map fun s => (s.line, s.endLine)).take (sortRun run).length := by
  unfold sortRun
  split
  · omega
  · have hlen : (dedupe (sortByLess run)).length ≤ (run.map fun s => (s.line, s.endLine)).length := by
      have := (dedupe_sublist (sortByLess run)).length_le
      have := (sortByLess_perm run).length_eq
      simp only [List.length_map]; omega
    have hl : (reassign (dedupe (sortByLess run)) (run.map fun s => (s.line, s.endLine))).length
        = (dedupe (sortByLess run)).length := by
      have := congrArg List.length (reassign_data (dedupe (sortByLess run)) (run.map fun s => (s.line, s.endLine)))
      simpa using this
    rw [reassign_pos _ _ hlen, hl]

/-! ## Runs -/

theorem splitRuns_flatten : ∀ (rest : List Spec) (prev : Spec) (cur : List Spec),
    (splitRuns prev cur rest).flatten = cur.reverse ++ rest := by
  intro rest
  induction rest with
  | nil => intro prev cur; simp [splitRuns]
  | cons s t ih =>
    intro prev cur
    simp only [splitRuns]
    split
    · simp [ih]
    · simp [ih]

/-- The runs partition the specs of the block, in order. -/
theorem runsOf_flatten (specs : List Spec) : (runsOf specs).flatten = specs := by
  cases specs with
  | nil => rfl
  | cons s t => simp [runsOf, splitRuns_flatten]

/-- Inside a run consecutive specs are on the same or the next line (`Chain`). -/
def Adjacent : List Spec → Prop
  | [] => True
  | [_] => True
  | a :: b :: t => b.line ≤ 1 + a.endLine ∧ Adjacent (b :: t)

theorem adjacent_append_one : ∀ (l : List Spec) (a b : Spec), Adjacent (l ++ [a]) →
    b.line ≤ 1 + a.endLine → Adjacent (l ++ [a, b])
  | [], _, _, _, h => ⟨h, trivial⟩
  | [_], _, _, h, hb => ⟨h.1, hb, trivial⟩
  | _ :: y :: t, a, b, h, hb => ⟨h.1, adjacent_append_one (y :: t) a b h.2 hb⟩

theorem splitRuns_adjacent : ∀ (rest : List Spec) (prev : Spec) (cur : List Spec),
    (∃ c, cur.reverse = c ++ [prev]) → Adjacent cur.reverse →
    ∀ run ∈ splitRuns prev cur rest, Adjacent run ∧ run ≠ [] := by
  intro rest
  induction rest with
  | nil =>
    intro prev cur ⟨c, hc⟩ hadj run hrun
    simp only [splitRuns, List.mem_singleton] at hrun
    subst hrun
    exact ⟨hadj, by rw [hc]; simp⟩
  | cons s t ih =>
    intro prev cur ⟨c, hc⟩ hadj run hrun
    simp only [splitRuns] at hrun
    split at hrun
    · simp only [List.mem_cons] at hrun
      rcases hrun with rfl | hrun
      · exact ⟨hadj, by rw [hc]; simp⟩
      · exact ih s [s] ⟨[], rfl⟩ trivial run hrun
    · rename_i hgap
      refine ih s (s :: cur) ⟨cur.reverse, by simp⟩ ?_ run hrun
      have : (s :: cur).reverse = c ++ [prev, s] := by simp [hc]
      rw [this]
      rw [hc] at hadj
      exact adjacent_append_one c prev s hadj (by omega)

theorem runsOf_adjacent (specs : List Spec) : ∀ run ∈ runsOf specs, Adjacent run ∧ run ≠ [] := by
  cases specs with
  | nil => intro run h; simp [runsOf] at h
  | cons s t => exact splitRuns_adjacent t s [s] ⟨[], rfl⟩ trivial

/-! ## A block and the whole file -/

theorem sortBlock_spec (specs : List Spec) :
    (∃ removed : List Spec,
      ((sortBlock specs).map Spec.data ++ removed.map Spec.data).Perm (specs.map Spec.data) ∧
      ∀ r ∈ removed, r.comment = none ∧ ∃ s ∈ sortBlock specs, s.pair = r.pair) ∧
    (∀ s ∈ specs, ∃ s' ∈ sortBlock specs, s'.pair = s.pair) := by
  have key : ∀ runs : List (List Spec),
      (∃ removed : List Spec,
        ((runs.flatMap sortRun).map Spec.data ++ removed.map Spec.data).Perm (runs.flatten.map Spec.data) ∧
        ∀ r ∈ removed, r.comment = none ∧ ∃ s ∈ runs.flatMap sortRun, s.pair = r.pair) ∧
      (∀ s ∈ runs.flatten, ∃ s' ∈ runs.flatMap sortRun, s'.pair = s.pair) := by
    intro runs
    induction runs with
    | nil => exact ⟨⟨[], by simp, by simp⟩, by simp⟩
    | cons run runs ih =>
      obtain ⟨⟨rem2, hp2, hr2⟩, hk2⟩ := ih
      obtain ⟨⟨rem1, hp1, hr1⟩, hk1⟩ := sortRun_spec run
      refine ⟨⟨rem1 ++ rem2, ?_, ?_⟩, ?_⟩
      · simp only [List.flatMap_cons, List.flatten_cons, List.map_append]
        have : ((sortRun run).map Spec.data ++ (runs.flatMap sortRun).map Spec.data ++
            (rem1.map Spec.data ++ rem2.map Spec.data)).Perm
            (((sortRun run).map Spec.data ++ rem1.map Spec.data) ++
              ((runs.flatMap sortRun).map Spec.data ++ rem2.map Spec.data)) := by
          simp only [List.append_assoc]
          refine List.Perm.append_left _ ?_
          rw [← List.append_assoc, ← List.append_assoc]
          exact List.Perm.append_right _ List.perm_append_comm
        exact this.trans (hp1.append hp2)
      · intro r hr
        simp only [List.mem_append] at hr
        simp only [List.flatMap_cons, List.mem_append]
        rcases hr with hr | hr
        · obtain ⟨hc, s, hs, he⟩ := hr1 r hr
          exact ⟨hc, s, Or.inl hs, he⟩
        · obtain ⟨hc, s, hs, he⟩ := hr2 r hr
          exact ⟨hc, s, Or.inr hs, he⟩
      · intro s hs
        simp only [List.flatten_cons, List.mem_append] at hs
        simp only [List.flatMap_cons, List.mem_append]
        rcases hs with hs | hs
        · obtain ⟨s', hs', he⟩ := hk1 s hs
          exact ⟨s', Or.inl hs', he⟩
        · obtain ⟨s', hs', he⟩ := hk2 s hs
          exact ⟨s', Or.inr hs', he⟩
  have := key (runsOf specs)
  rw [runsOf_flatten] at this
  exact this

/-- The (name, path) pairs of all import declarations of a file. -/
def pairsOf : List Decl → List (Bytes × Bytes)
  | [] => []
  | .other :: ds => pairsOf ds
  | .imp _ specs :: ds => specs.map Spec.pair ++ pairsOf ds

theorem sortBlock_pairs (specs : List Spec) (k : Bytes × Bytes) :
    k ∈ (sortBlock specs).map Spec.pair ↔ k ∈ specs.map Spec.pair := by
  obtain ⟨⟨rem, hp, _⟩, hk⟩ := sortBlock_spec specs
  constructor
  · intro h
    obtain ⟨s, hs, rfl⟩ := List.mem_map.mp h
    have : s.data ∈ specs.map Spec.data :=
      hp.subset (List.mem_append_left _ (List.mem_map_of_mem hs))
    obtain ⟨s0, hs0, hd⟩ := List.mem_map.mp this
    exact List.mem_map.mpr ⟨s0, hs0, data_pair _ _ hd⟩
  · intro h
    obtain ⟨s, hs, rfl⟩ := List.mem_map.mp h
    obtain ⟨s', hs', he⟩ := hk s hs
    exact List.mem_map.mpr ⟨s', hs', he⟩

/-! ## Property theorems (C23) -/

/-- `imports_set`: formatting never adds or removes an import: the set of (name, path) pairs
of the file is unchanged. -/
theorem C23_imports_set (ds : List Decl) (k : Bytes × Bytes) :
    k ∈ pairsOf (sortImports ds) ↔ k ∈ pairsOf ds := by
  induction ds with
  | nil => simp [sortImports]
  | cons d ds ih =>
    cases d with
    | other => simp [sortImports]
    | imp g specs =>
      cases g with
      | false => simp only [sortImports, pairsOf, List.mem_append, ih]
      | true => simp only [sortImports, pairsOf, List.mem_append, ih, sortBlock_pairs]

/-- `only_dups_removed` and `pair_kept`: in a parenthesised import declaration the result, together
with some removed specs, is a permutation of the original specs as far as name, path, literal and
comment go (so a name always stays with its path, nothing is invented); every removed spec had no
comment and an exact duplicate — same name, same path — is still there. -/
theorem C23_only_dups_removed (specs : List Spec) :
    ∃ removed : List Spec,
      ((sortBlock specs).map Spec.data ++ removed.map Spec.data).Perm (specs.map Spec.data) ∧
      ∀ r ∈ removed, r.comment = none ∧ ∃ s ∈ sortBlock specs, s.pair = r.pair :=
  (sortBlock_spec specs).1

theorem C23_pair_kept (specs : List Spec) (s : Spec) (h : s ∈ sortBlock specs) :
    ∃ s0 ∈ specs, s.name = s0.name ∧ s.path = s0.path ∧ s.lit = s0.lit ∧ s.comment = s0.comment := by
  obtain ⟨rem, hp, _⟩ := C23_only_dups_removed specs
  have : s.data ∈ specs.map Spec.data := hp.subset (List.mem_append_left _ (List.mem_map_of_mem h))
  obtain ⟨s0, hs0, hd⟩ := List.mem_map.mp this
  simp only [Spec.data, Prod.mk.injEq] at hd
  exact ⟨s0, hs0, hd.1.symm, hd.2.1.symm, hd.2.2.1.symm, hd.2.2.2.symm⟩

/-- A spec that carries a comment is never removed. -/
theorem C23_commented_kept (specs : List Spec) (s : Spec) (h : s ∈ specs) (hc : s.comment ≠ none) :
    (specs.map Spec.data).count s.data ≤ ((sortBlock specs).map Spec.data).count s.data := by
  obtain ⟨rem, hp, hr⟩ := C23_only_dups_removed specs
  have _ := h
  have hcount := hp.count_eq s.data
  rw [List.count_append] at hcount
  have : (rem.map Spec.data).count s.data = 0 := by
    apply List.count_eq_zero.mpr
    intro hmem
    obtain ⟨r, hrm, hd⟩ := List.mem_map.mp hmem
    have := (hr r hrm).1
    rw [data_comment r s hd] at this
    exact hc this
  omega

/-- `runs_sorted`: a parenthesised import declaration is handled run by run — the runs are the
maximal sequences of specs on successive lines and partition the declaration in order — and the
result of every run of more than one spec is sorted by (path, name, comment), in particular by
path, and sits on the first positions of that run. (A single spec is left alone.) -/
theorem C23_runs_sorted (specs : List Spec) :
    sortBlock specs = (runsOf specs).flatMap sortRun ∧
    (runsOf specs).flatten = specs ∧
    (∀ run ∈ runsOf specs, Adjacent run ∧ run ≠ [] ∧
      (1 < run.length → SortedByPath (sortRun run) ∧ Sorted (sortRun run) ∧
        (sortRun run).map (fun s => (s.line, s.endLine)) =
          (run.map fun s => (s.line, s.endLine)).take (sortRun run).length) ∧
      (run.length ≤ 1 → sortRun run = run)) := by
  refine ⟨rfl, runsOf_flatten specs, ?_⟩
  intro run hrun
  obtain ⟨ha, hne⟩ := runsOf_adjacent specs run hrun
  refine ⟨ha, hne, ?_, ?_⟩
  · intro h
    exact ⟨(sortRun_sorted run h).2, (sortRun_sorted run h).1, sortRun_positions run h⟩
  · intro h; simp [sortRun, h]

/-- `ungrouped_untouched`: declarations are never added, dropped or reordered; an import
declaration without parentheses and every non-import declaration stay exactly as they are; a
parenthesised one stays a parenthesised one. -/
theorem C23_ungrouped_untouched (ds : List Decl) :
    (sortImports ds).length = ds.length ∧
    ∀ i : Nat,
      (∀ sp : List Spec, ds[i]? = some (Decl.imp false sp) → (sortImports ds)[i]? = some (Decl.imp false sp)) ∧
      (ds[i]? = some Decl.other → (sortImports ds)[i]? = some Decl.other) ∧
      (∀ sp : List Spec, ds[i]? = some (Decl.imp true sp) →
        ∃ sp' : List Spec, (sortImports ds)[i]? = some (Decl.imp true sp')) := by
  induction ds with
  | nil => simp [sortImports]
  | cons d ds ih =>
    obtain ⟨hl, hi⟩ := ih
    cases d with
    | other =>
      simp only [sortImports, true_and]
      intro i
      exact ⟨fun sp h => h, fun h => h, fun sp h => ⟨sp, h⟩⟩
    | imp g specs =>
      cases g with
      | false =>
        simp only [sortImports, List.length_cons, hl, true_and]
        intro i
        cases i with
        | zero => simp
        | succ j => simpa using hi j
      | true =>
        simp only [sortImports, List.length_cons, hl, true_and]
        intro i
        cases i with
        | zero => simp
        | succ j => simpa using hi j

/-- Nothing after the first non-import declaration is looked at. -/
theorem C23_stops_at_first_other (pre post : List Decl) :
    sortImports (pre ++ Decl.other :: post) = sortImports pre ++ Decl.other :: post := by
  induction pre with
  | nil => simp [sortImports]
  | cons d ds ih =>
    cases d with
    | other => simp [sortImports]
    | imp g specs => cases g <;> simp [sortImports, ih]

/-! ## Non-vacuity -/

def exB : Spec := { name := [], path := [0x62], lit := [0x22, 0x62, 0x22], comment := none, line := 2, endLine := 2 }
def exA : Spec := { name := [], path := [0x61], lit := [0x22, 0x61, 0x22], comment := none, line := 3, endLine := 3 }
def exA2 : Spec := { name := [], path := [0x61], lit := [0x60, 0x61, 0x60], comment := none, line := 4, endLine := 4 }
def exAc : Spec := { name := [], path := [0x61], lit := [0x22, 0x61, 0x22], comment := some [0x63, 0x0a], line := 5, endLine := 5 }
def exD : Spec := { name := [0x78], path := [0x64], lit := [0x22, 0x64, 0x22], comment := none, line := 7, endLine := 7 }
def exC : Spec := { name := [], path := [0x63], lit := [0x22, 0x63, 0x22], comment := none, line := 8, endLine := 8 }

/-- `( "b" / "a" / `a` / "a" // c / <blank> / x "d" / "c" )`: two runs; the first loses both
comment-less copies of "a" (each is followed, after sorting, by another "a"), the commented one
stays; positions are handed out in order. -/
example : sortBlock [exB, exA, exA2, exAc, exD, exC] =
    [{ exAc with line := 2, endLine := 2 }, { exB with line := 3, endLine := 3 },
     { exC with line := 7, endLine := 7 }, { exD with line := 8, endLine := 8 }] := by decide

example : runsOf [exB, exA, exA2, exAc, exD, exC] = [[exB, exA, exA2, exAc], [exD, exC]] := by decide

example : sortImports [.imp false [exB], .imp true [exB, exA], .other, .imp true [exB, exA]] =
    [.imp false [exB], .imp true [{ exA with line := 2, endLine := 2 }, { exB with line := 3, endLine := 3 }],
     .other, .imp true [exB, exA]] := by decide

/-- Hypotheses of `C23_commented_kept` / `C23_runs_sorted` are satisfiable. -/
example : exAc ∈ [exB, exA, exA2, exAc, exD, exC] ∧ exAc.comment ≠ none := by decide
example : 1 < [exB, exA, exA2, exAc].length := by decide
example : SortedByPath (sortRun [exB, exA, exA2, exAc]) := by
  unfold SortedByPath; decide

end GopModel.ImportSort
