/-
C08 — compilation output is deterministic.  KERNEL ONLY (`_partial`).

FULL STATEMENT (properties.jsonl), not provable here because the compiler (cl 7 kLoC + gogen +
go/format) is not modelled:

    ∀ files, ∀ map-iteration schedules π π', ∀ presentations (orders of listing / parsing) ρ ρ',
      ∀ process histories h h',
        compile files π ρ h = compile files π' ρ' h'     -- bytes of Package.WriteTo, or the error list

What is proved, over the abstract loader `GopModel.DetSched` (see Model/DetSched.lean for the exact
reading of cl/compile.go it transcribes):

* `C08_emit_order_indep_partial`  for any two iteration orders π₁ ~ π₂ of the map-driven phase:
  the set of loaded symbols, the source-ordered (slot) part of the output and the MULTISET of errors
  are equal.  Hypothesis = "emission order is a function of source position and loading is
  idempotent", which is how `slotOut` is defined.
* `C08_fuel_adequate`  the explicit out-of-fuel outcome does not occur (for programs with
  distinct names), so the theorem above is not vacuous.
* `C08_sorted_iteration_deterministic`  when the map-driven phase iterates `sort(keys)` (the code
  after commit "fix: cl, x/build: iterate maps in sorted order") the WHOLE final state (including
  the order of load-time-appended declarations and the ORDER of errors) is independent of π.
* `C08_error_order_depends_on_pi`, `C08_append_order_depends_on_pi`  converse witnesses: with a raw
  map-ordered phase the error ORDER and the order of appended declarations do depend on π (this
  is what the unrepaired tree did: replayed on the real code by harness/cmd/c08).
* `C08_mapranges_classified`  every `range` over a map in /repo/cl and /repo/x/build (regenerated
  table `Generated/MapRanges.lean`) carries a committed order-insensitivity classification.
-/
import GopModel.Model.DetSched
import GopModel.Generated.MapRanges
namespace GopModel.DetSched

def errOf (P : Prog) (m : Name) : Option Nat := (find P m).bind (·.err)

/-- `T` is closed under on-demand dependencies. -/
def Closed (P : Prog) (T : Name → Prop) : Prop :=
  ∀ m s, T m → find P m = some s → ∀ d ∈ s.deps, T d

def Found (P : Prog) (l : List Name) : Prop := ∀ m ∈ l, (find P m).isSome = true

/-- What one (or several) `load` calls with fuel `f` do to the state:
`roots` were requested, `new` are the symbols first loaded by these calls (most recent first). -/
structure Step (P : Prog) (f : Nat) (st st' : St) (roots new : List Name) : Prop where
  ext : st'.vis = new ++ st.vis
  oofMono : st.oof = true → st'.oof = true
  rootsIn : st'.oof = false → ∀ r ∈ roots, r ∈ st'.vis ∨ find P r = none
  closedNew : st'.oof = false → ∀ m ∈ new, ∀ s, find P m = some s →
    ∀ d ∈ s.deps, d ∈ st'.vis ∨ find P d = none
  least : ∀ T : Name → Prop, Closed P T → (∀ r ∈ roots, T r) → ∀ m ∈ new, T m
  errs : st'.errs.Perm (new.filterMap (errOf P) ++ st.errs)
  fresh : ∀ m ∈ new, m ∉ st.vis ∧ (find P m).isSome = true
  nodup : new.Nodup
  adq : st.vis.Nodup → Found P st.vis → P.length < f + st.vis.length → st'.oof = st.oof

theorem Step.refl (P : Prog) (f : Nat) (st : St) : Step P f st st [] [] where
  ext := rfl
  oofMono := id
  rootsIn := by intro _ r hr; cases hr
  closedNew := by intro _ m hm; cases hm
  least := by intro _ _ _ m hm; cases hm
  errs := by simp
  fresh := by intro m hm; cases hm
  nodup := List.nodup_nil
  adq := by intros; rfl

theorem Step.noop (P : Prog) (f : Nat) (st : St) (roots : List Name)
    (hr : ∀ r ∈ roots, r ∈ st.vis ∨ find P r = none) : Step P f st st roots [] where
  ext := rfl
  oofMono := id
  rootsIn := fun _ => hr
  closedNew := by intro _ m hm; cases hm
  least := by intro _ _ _ m hm; cases hm
  errs := by simp
  fresh := by intro m hm; cases hm
  nodup := List.nodup_nil
  adq := by intros; rfl

theorem Step.vis_nodup {P f st st' roots new} (h : Step P f st st' roots new)
    (hn : st.vis.Nodup) : st'.vis.Nodup := by
  rw [h.ext]
  refine List.nodup_append.mpr ⟨h.nodup, hn, ?_⟩
  intro a ha b hb hab
  subst hab
  exact (h.fresh a ha).1 hb

theorem Step.vis_found {P f st st' roots new} (h : Step P f st st' roots new)
    (hf : Found P st.vis) : Found P st'.vis := by
  intro m hm
  rw [h.ext] at hm
  rcases List.mem_append.mp hm with hm | hm
  · exact (h.fresh m hm).2
  · exact hf m hm

theorem Step.trans {P f st st1 st2 r1 r2 n1 n2}
    (h1 : Step P f st st1 r1 n1) (h2 : Step P f st1 st2 r2 n2) :
    Step P f st st2 (r1 ++ r2) (n2 ++ n1) where
  ext := by rw [h2.ext, h1.ext, List.append_assoc]
  oofMono := fun h => h2.oofMono (h1.oofMono h)
  rootsIn := by
    intro ho r hr
    have ho1 : st1.oof = false := by
      cases hc : st1.oof with
      | false => rfl
      | true => rw [h2.oofMono hc] at ho; cases ho
    rcases List.mem_append.mp hr with hr | hr
    · rcases h1.rootsIn ho1 r hr with h | h
      · left; rw [h2.ext]; exact List.mem_append_right _ h
      · right; exact h
    · exact h2.rootsIn ho r hr
  closedNew := by
    intro ho m hm s hs d hd
    have ho1 : st1.oof = false := by
      cases hc : st1.oof with
      | false => rfl
      | true => rw [h2.oofMono hc] at ho; cases ho
    rcases List.mem_append.mp hm with hm | hm
    · exact h2.closedNew ho m hm s hs d hd
    · rcases h1.closedNew ho1 m hm s hs d hd with h | h
      · left; rw [h2.ext]; exact List.mem_append_right _ h
      · right; exact h
  least := by
    intro T hT hr m hm
    rcases List.mem_append.mp hm with hm | hm
    · exact h2.least T hT (fun r h => hr r (List.mem_append_right _ h)) m hm
    · exact h1.least T hT (fun r h => hr r (List.mem_append_left _ h)) m hm
  errs := by
    have e1 := h1.errs
    have e2 := h2.errs
    rw [List.filterMap_append, List.append_assoc]
    exact e2.trans (List.Perm.append_left _ e1)
  fresh := by
    intro m hm
    rcases List.mem_append.mp hm with hm | hm
    · have := h2.fresh m hm
      refine ⟨fun h => this.1 ?_, this.2⟩
      rw [h1.ext]; exact List.mem_append_right _ h
    · exact h1.fresh m hm
  nodup := by
    refine List.nodup_append.mpr ⟨h2.nodup, h1.nodup, ?_⟩
    intro a ha b hb hab
    subst hab
    exact (h2.fresh a ha).1 (by rw [h1.ext]; exact List.mem_append_left _ hb)
  adq := by
    intro hn hf hlt
    have hlen : st.vis.length ≤ st1.vis.length := by rw [h1.ext]; simp
    rw [h2.adq (h1.vis_nodup hn) (h1.vis_found hf) (by omega), h1.adq hn hf hlt]

/-- A fold of `load` is a `Step`, given that each single `load` is. -/
theorem fold_step (P : Prog) (f : Nat)
    (single : ∀ st n, ∃ new, Step P f st (load P f st n) [n] new) :
    ∀ (ds : List Name) (st : St), ∃ new, Step P f st (ds.foldl (load P f) st) ds new := by
  intro ds
  induction ds with
  | nil => intro st; exact ⟨[], Step.refl P f st⟩
  | cons d t ih =>
    intro st
    obtain ⟨n1, h1⟩ := single st d
    obtain ⟨n2, h2⟩ := ih (load P f st d)
    exact ⟨n2 ++ n1, by simpa using h1.trans h2⟩

theorem find_name {P : Prog} {n : Name} {s : Sym} (h : find P n = some s) : s.name = n ∧ s ∈ P := by
  unfold find at h
  have h1 := List.find?_some h
  have h2 := List.mem_of_find?_eq_some h
  exact ⟨by simpa using h1, h2⟩

theorem found_length_le {P : Prog} {l : List Name} (hn : l.Nodup) (hf : Found P l) :
    l.length ≤ P.length := by
  have hsub : l ⊆ P.map (·.name) := by
    intro m hm
    have := hf m hm
    cases hs : find P m with
    | none => rw [hs] at this; cases this
    | some s =>
      obtain ⟨h1, h2⟩ := find_name hs
      exact List.mem_map.mpr ⟨s, h2, h1⟩
  have := hn.length_le_of_subset hsub
  simpa using this

theorem load_step (P : Prog) : ∀ (f : Nat) (st : St) (n : Name),
    ∃ new, Step P f st (load P f st n) [n] new := by
  intro f
  induction f with
  | zero =>
    intro st n
    by_cases hv : n ∈ st.vis
    · refine ⟨[], ?_⟩
      have : load P 0 st n = st := by simp [load, hv]
      rw [this]
      exact Step.noop P _ st [n] (by intro r hr; simp at hr; subst hr; exact Or.inl hv)
    · cases hs : find P n with
      | none =>
        refine ⟨[], ?_⟩
        have : load P 0 st n = st := by simp [load, hv, hs]
        rw [this]
        exact Step.noop P _ st [n] (by intro r hr; simp at hr; subst hr; exact Or.inr hs)
      | some s =>
        refine ⟨[], ?_⟩
        have : load P 0 st n = { st with oof := true } := by simp [load, hv, hs]
        rw [this]
        exact {
          ext := rfl
          oofMono := fun _ => rfl
          rootsIn := by intro h; cases h
          closedNew := by intro _ m hm; cases hm
          least := by intro _ _ _ m hm; cases hm
          errs := by simp
          fresh := by intro m hm; cases hm
          nodup := List.nodup_nil
          adq := by
            intro hn hf hlt
            exfalso
            have hn' : (n :: st.vis).Nodup := List.nodup_cons.mpr ⟨hv, hn⟩
            have hf' : Found P (n :: st.vis) := by
              intro m hm
              rcases List.mem_cons.mp hm with rfl | hm
              · simp [hs]
              · exact hf m hm
            have := found_length_le hn' hf'
            simp at this
            omega }
  | succ f ih =>
    intro st n
    by_cases hv : n ∈ st.vis
    · refine ⟨[], ?_⟩
      have : load P (f + 1) st n = st := by simp [load, hv]
      rw [this]
      exact Step.noop P _ st [n] (by intro r hr; simp at hr; subst hr; exact Or.inl hv)
    · cases hs : find P n with
      | none =>
        refine ⟨[], ?_⟩
        have : load P (f + 1) st n = st := by simp [load, hv, hs]
        rw [this]
        exact Step.noop P _ st [n] (by intro r hr; simp at hr; subst hr; exact Or.inr hs)
      | some s =>
        obtain ⟨new1, h1⟩ := fold_step P f (ih) s.deps { st with vis := n :: st.vis }
        -- the state after the dependencies, before the error is appended
        have hload0 : load P (f + 1) st n =
            (match s.err with
             | none => s.deps.foldl (load P f) { st with vis := n :: st.vis }
             | some e => { s.deps.foldl (load P f) { st with vis := n :: st.vis } with
                 errs := e :: (s.deps.foldl (load P f) { st with vis := n :: st.vis }).errs }) := by
          simp only [load, hv, hs, if_false]
          cases s.err <;> rfl
        generalize hst1 : s.deps.foldl (load P f) { st with vis := n :: st.vis } = st1 at h1 hload0
        have hload : load P (f + 1) st n =
            (match s.err with
             | none => st1
             | some e => { st1 with errs := e :: st1.errs }) := hload0
        have hvis : (load P (f + 1) st n).vis = st1.vis := by
          rw [hload]; cases s.err <;> rfl
        have hoof : (load P (f + 1) st n).oof = st1.oof := by
          rw [hload]; cases s.err <;> rfl
        have herrs : (load P (f + 1) st n).errs = s.err.toList ++ st1.errs := by
          rw [hload]; cases s.err <;> rfl
        have hext1 : st1.vis = new1 ++ n :: st.vis := h1.ext
        refine ⟨new1 ++ [n], ?_⟩
        exact {
          ext := by rw [hvis, hext1]; simp
          oofMono := by intro h; rw [hoof]; exact h1.oofMono h
          rootsIn := by
            intro _ r hr
            simp at hr; subst hr
            left; rw [hvis, hext1]; simp
          closedNew := by
            intro ho m hm s' hs' d hd
            rw [hoof] at ho
            rw [hvis]
            rcases List.mem_append.mp hm with hm | hm
            · exact h1.closedNew ho m hm s' hs' d hd
            · simp at hm; subst hm
              rw [hs] at hs'; cases hs'
              exact h1.rootsIn ho d hd
          least := by
            intro T hT hr m hm
            have hTn : T n := hr n (by simp)
            rcases List.mem_append.mp hm with hm | hm
            · exact h1.least T hT (fun d hd => hT n s hTn hs d hd) m hm
            · simp at hm; subst hm; exact hTn
          errs := by
            rw [herrs, List.filterMap_append]
            have e1 : st1.errs.Perm (new1.filterMap (errOf P) ++ st.errs) := h1.errs
            have hn : [n].filterMap (errOf P) = s.err.toList := by
              simp [errOf, hs, List.filterMap_cons]
              cases s.err <;> simp
            rw [hn, List.append_assoc]
            exact (List.Perm.append_left _ e1).trans (List.perm_append_comm_assoc _ _ _)
          fresh := by
            intro m hm
            rcases List.mem_append.mp hm with hm | hm
            · have := h1.fresh m hm
              exact ⟨fun h => this.1 (List.mem_cons_of_mem _ h), this.2⟩
            · simp at hm; subst hm; exact ⟨hv, by simp [hs]⟩
          nodup := by
            refine List.nodup_append.mpr ⟨h1.nodup, by simp, ?_⟩
            intro a ha b hb hab
            simp at hb; subst hb; subst hab
            exact (h1.fresh a ha).1 (by simp)
          adq := by
            intro hn hf hlt
            rw [hoof]
            have hn' : (n :: st.vis).Nodup := List.nodup_cons.mpr ⟨hv, hn⟩
            have hf' : Found P (n :: st.vis) := by
              intro m hm
              rcases List.mem_cons.mp hm with rfl | hm
              · simp [hs]
              · exact hf m hm
            exact h1.adq hn' hf' (by simp; omega) }

theorem run_step (P : Prog) (π fixed : List Name) :
    ∃ new, Step P (fuelFor P) St.init (run P π fixed) (π ++ fixed) new :=
  fold_step P (fuelFor P) (load_step P (fuelFor P)) (π ++ fixed) St.init

/-- Fuel adequacy: loading never runs out of fuel. -/
theorem C08_fuel_adequate (P : Prog) (π fixed : List Name) : (run P π fixed).oof = false := by
  obtain ⟨new, h⟩ := run_step P π fixed
  have := h.adq (by simp [St.init]) (by intro m hm; simp [St.init] at hm) (by simp [St.init, fuelFor])
  simpa [St.init] using this

theorem loaded_subset {P : Prog} {π₁ π₂ fixed : List Name} (hp : π₁.Perm π₂) :
    ∀ m, m ∈ (run P π₁ fixed).vis → m ∈ (run P π₂ fixed).vis := by
  obtain ⟨n1, h1⟩ := run_step P π₁ fixed
  obtain ⟨n2, h2⟩ := run_step P π₂ fixed
  have o2 := C08_fuel_adequate P π₂ fixed
  intro m hm
  have hv1 : (run P π₁ fixed).vis = n1 := by simpa [St.init] using h1.ext
  have hv2 : (run P π₂ fixed).vis = n2 := by simpa [St.init] using h2.ext
  rw [hv1] at hm
  let T : Name → Prop := fun x => x ∈ (run P π₂ fixed).vis ∨ find P x = none
  have hT : Closed P T := by
    intro x s hx hs d hd
    rcases hx with hx | hx
    · rw [hv2] at hx
      exact h2.closedNew o2 x hx s hs d hd
    · rw [hx] at hs; cases hs
  have hroots : ∀ r ∈ π₁ ++ fixed, T r := by
    intro r hr
    have : r ∈ π₂ ++ fixed := by
      rcases List.mem_append.mp hr with hr | hr
      · exact List.mem_append_left _ (hp.subset hr)
      · exact List.mem_append_right _ hr
    exact h2.rootsIn o2 r this
  rcases h1.least T hT hroots m hm with h | h
  · exact h
  · have := (h1.fresh m hm).2
    rw [h] at this; cases this

theorem run_vis_nodup (P : Prog) (π fixed : List Name) : (run P π fixed).vis.Nodup := by
  obtain ⟨n, h⟩ := run_step P π fixed
  exact h.vis_nodup (by simp [St.init])

theorem run_errs_perm (P : Prog) (π fixed : List Name) :
    (run P π fixed).errs.Perm ((run P π fixed).vis.filterMap (errOf P)) := by
  obtain ⟨n, h⟩ := run_step P π fixed
  have hv : (run P π fixed).vis = n := by simpa [St.init] using h.ext
  have := h.errs
  simpa [St.init, hv] using this

/-- C08 kernel.  For two iteration orders of the map-driven phase (permutations of the same key
set) the same symbols get loaded, the source-ordered part of the output is identical and the
errors are equal as a multiset.  (Nothing is claimed here about the ORDER of errors or of the
load-time-appended declarations: see the witnesses below.) -/
theorem C08_emit_order_indep_partial (P : Prog) (π₁ π₂ fixed : List Name) (hp : π₁.Perm π₂) :
    (∀ m, m ∈ (run P π₁ fixed).vis ↔ m ∈ (run P π₂ fixed).vis) ∧
    slotOut P (run P π₁ fixed) = slotOut P (run P π₂ fixed) ∧
    (errOut (run P π₁ fixed)).Perm (errOut (run P π₂ fixed)) ∧
    (appOut P (run P π₁ fixed)).Perm (appOut P (run P π₂ fixed)) := by
  have hmem : ∀ m, m ∈ (run P π₁ fixed).vis ↔ m ∈ (run P π₂ fixed).vis :=
    fun m => ⟨loaded_subset hp m, loaded_subset hp.symm m⟩
  have hperm : (run P π₁ fixed).vis.Perm (run P π₂ fixed).vis :=
    (List.perm_ext_iff_of_nodup (run_vis_nodup P π₁ fixed) (run_vis_nodup P π₂ fixed)).mpr hmem
  refine ⟨hmem, ?_, ?_, ?_⟩
  · unfold slotOut
    congr 1
    apply List.filter_congr
    intro s _
    have : (run P π₁ fixed).vis.contains s.name = (run P π₂ fixed).vis.contains s.name := by
      rw [Bool.eq_iff_iff]; simp [hmem]
    rw [this]
  · unfold errOut
    refine (List.reverse_perm _).trans (.trans ?_ (List.reverse_perm _).symm)
    exact (run_errs_perm P π₁ fixed).trans
      ((hperm.filterMap _).trans (run_errs_perm P π₂ fixed).symm)
  · unfold appOut loadOrder
    exact ((List.reverse_perm _).trans (hperm.trans (List.reverse_perm _).symm)).filter _

/-- The repaired code: the map-driven phase iterates the SORTED key set.  Then the whole final
state — order of appended declarations and order of errors included — does not depend on the
order in which the map would have been iterated. -/
theorem C08_sorted_iteration_deterministic (P : Prog) (π₁ π₂ fixed : List Name) (hp : π₁.Perm π₂) :
    run P (sortNames π₁) fixed = run P (sortNames π₂) fixed := by
  have hs : sortNames π₁ = sortNames π₂ := by
    unfold sortNames
    apply List.Perm.eq_of_pairwise (le := fun a b => decide (a ≤ b) = true)
    · intro a b _ _ h1 h2
      simp at h1 h2; exact Nat.le_antisymm h1 h2
    · exact List.pairwise_mergeSort (by intro a b c h1 h2; simp at *; exact Nat.le_trans h1 h2)
        (by intro a b; simp; exact Nat.le_total a b) π₁
    · exact List.pairwise_mergeSort (by intro a b c h1 h2; simp at *; exact Nat.le_trans h1 h2)
        (by intro a b; simp; exact Nat.le_total a b) π₂
    · exact (List.mergeSort_perm π₁ _).trans (hp.trans (List.mergeSort_perm π₂ _).symm)
  rw [hs]

/-! ### Converse witnesses (what a raw map-ordered phase allows) -/

/-- Two Go-file types, each with an independent error (the shape of
`b.go: type A struct{ x Undef1 }`, `c.go: type B struct{ y Undef2 }`). -/
def witErr : Prog := [⟨0, [], true, some 100⟩, ⟨1, [], true, some 101⟩]

theorem C08_error_order_depends_on_pi :
    errOut (run witErr [0, 1] []) ≠ errOut (run witErr [1, 0] []) ∧
    (errOut (run witErr [0, 1] [])).Perm (errOut (run witErr [1, 0] [])) := by
  decide

/-- Two Go-file types `A`,`B` (2,3), each referring to a different XGo variable (0,1) (the shape
`type A [len(V0)]int`, `type B [len(V1)]int`); `loadFile` then visits 0,1 in source order. -/
def witApp : Prog := [⟨0, [], false, none⟩, ⟨1, [], false, none⟩, ⟨2, [0], true, none⟩, ⟨3, [1], true, none⟩]

theorem C08_append_order_depends_on_pi :
    declOut witApp (run witApp [2, 3] [0, 1]) ≠ declOut witApp (run witApp [3, 2] [0, 1]) ∧
    declOut witApp (run witApp (sortNames [2, 3]) [0, 1]) =
      declOut witApp (run witApp (sortNames [3, 2]) [0, 1]) := by
  refine ⟨by decide, ?_⟩
  rw [C08_sorted_iteration_deterministic witApp [2, 3] [3, 2] [0, 1] (List.Perm.swap 3 2 [])]

/-! ### Non-vacuity: a program with on-demand loading, a cycle, an unknown name and errors -/

def exProg : Prog :=
  [⟨0, [2, 1], false, none⟩, ⟨1, [0, 7], true, some 5⟩, ⟨2, [3], false, some 6⟩, ⟨3, [2], true, none⟩,
   ⟨4, [1], true, some 9⟩]

example : (run exProg [4, 3] [0, 1, 2]).vis.length = 5 ∧ (run exProg [4, 3] [0, 1, 2]).oof = false := by
  decide
example : errOut (run exProg [4, 3] [0, 1, 2]) = [6, 5, 9] ∧ errOut (run exProg [3, 4] [0, 1, 2]) = [6, 5, 9]
    ∧ declOut exProg (run exProg [4, 3] [0, 1, 2]) = [1, 3, 4, 0, 2]
    ∧ declOut exProg (run exProg [3, 4] [0, 1, 2]) = [1, 3, 4, 2, 0] := by
  decide

/-! ### The regenerated table of map ranges -/

open GopModel.Generated.MapRanges in
/-- Every `range` over a map-typed expression in /repo/cl and /repo/x/build has a committed
classification other than `unclassified` (the translator also refuses to emit an unclassified
site: this theorem re-checks the emitted table in the kernel). -/
theorem C08_mapranges_classified :
    mapRanges.all (fun r => r.cls != Cls.unclassified) = true ∧ mapRanges.length > 0 := by
  decide

end GopModel.DetSched
