/-
C32 — the TPL scanner tokenises like the XGo scanner.

Over the scanner model M1 with dialects `tpl` (tpl/scanner/scanner.go) and `xgo`
(scanner/scanner.go), FULL on the decidable domain `sharedLexemesOnly` (Model/ScanDomain.lean):

    theorem C32_tpl_eq_xgo : sharedLexemesOnly U comments noSemis src = true →
        ToksRel (scan ⟨.tpl, …⟩ src).toks (scan ⟨.xgo, …⟩ src).toks ∧ errs equal ∧ both `done`

for every byte string, every classification `U` and every scanning mode: the two runs return
the same lexemes — same offsets and ends (token boundaries), same literals, the same kinds by
`String()` (the two token packages number their tokens differently), the same inserted
semicolons, both or neither EOF — and even the same error-handler calls; `C32_agree` restates
it with the comparison `agree32` that the harness evaluates on the real scanners.

The domain is evaluated on the xgo model's own run in the compared mode (`shRunOK`): no ILLEGAL
token, no keyword (TPL has none and inserts `;` after every identifier), no `c"…"`/`py"…"`, no
`*` directly followed by `*` (TPL: `**`), and every comment (returned or skipped) without a CR
inside `/*…*/` or `#…` (the scanners strip them differently there; inside `//…` both remove every
CR, which is part of the theorem), not `#/…`/`#*…` (an XGo quirk) and not continuing with "line "
after two bytes (only XGo interprets line directives, also `# line …`).  Each exclusion is a real
difference (witnesses below).

Proof: `Lemmas/ScanC32a…e.lean`: from the same scanner state one pass through `Scan` of the two
dialects ends in the same state and returns related tokens (`step32`: comment scanners
`commentXG_eq_tpl`/`commentXG_eq_sharp`, operator tries compared by spelling over the regenerated
tables `switch32`, `walk32`), so the loops run in lockstep (`lockstep32`); on top of C15.
-/
import GopModel.Lemmas.ScanC32e
import GopModel.Lemmas.ScanSpecials
namespace GopModel.Scan.C32
open GopModel.Generated GopModel.Scan

def noU : UCls := { isLetter := fun _ => false, isDigit := fun _ => false }
def cfg (d : Dialect) (comments : Bool) : Cfg := { d := d, comments := comments, noSemis := false, U := noU }

/-- **C32** (on the model, FULL on the domain) -/
theorem C32_tpl_eq_xgo (U : UCls) (comments noSemis : Bool) (src : Array UInt8)
    (h : sharedLexemesOnly U comments noSemis src = true) :
    ToksRel (scan { d := .tpl, comments := comments, noSemis := noSemis, U := U } src).toks
      (scan { d := .xgo, comments := comments, noSemis := noSemis, U := U } src).toks ∧
    (scan { d := .tpl, comments := comments, noSemis := noSemis, U := U } src).errs =
      (scan { d := .xgo, comments := comments, noSemis := noSemis, U := U } src).errs ∧
    (scan { d := .tpl, comments := comments, noSemis := noSemis, U := U } src).status = .done ∧
    (scan { d := .xgo, comments := comments, noSemis := noSemis, U := U } src).status = .done :=
  scan_tpl_eq_xgo U comments noSemis src h

/-- the same with the comparison the harness evaluates on the real scanners -/
theorem C32_agree (U : UCls) (comments noSemis : Bool) (src : Array UInt8)
    (h : sharedLexemesOnly U comments noSemis src = true) :
    agree32 (scan { d := .tpl, comments := comments, noSemis := noSemis, U := U } src)
      (scan { d := .xgo, comments := comments, noSemis := noSemis, U := U } src) = true := by
  obtain ⟨h1, _, h3, h4⟩ := C32_tpl_eq_xgo U comments noSemis src h
  unfold agree32
  simp [h3, h4, h1.sameToks]

/-- two tries have the same shape, flags, and leaves with the same spelling -/
def sameTrie : Trie → Trie → Bool
  | .leaf a s1 p1, .leaf b s2 p2 =>
    s1 == s2 && p1 == p2 && kindName .tpl a == kindName .xgo b && (kindName .tpl a).isSome
  | .test c1 y1 n1, .test c2 y2 n2 => c1 == c2 && sameTrie y1 y2 && sameTrie n1 n2
  | _, _ => false

/-- For every first byte but `*` that the XGo switch handles, the TPL switch decides in the
same way, by spelling. -/
theorem C32_switch_agrees_by_spelling :
    ∀ e ∈ ScanSwitch.xgoOps, e.1 ≠ 0x2A →
      ∃ t, ScanSwitch.tplOps.lookup e.1 = some t ∧ sameTrie t e.2 = true := by
  have h : (ScanSwitch.xgoOps.all fun e => e.1 == 0x2A ||
      match ScanSwitch.tplOps.lookup e.1 with
      | some t => sameTrie t e.2
      | none => false) = true := by decide +kernel
  intro e he hne
  have := (List.all_eq_true.mp h) e he
  simp only [Bool.or_eq_true, beq_iff_eq] at this
  rcases this with h1 | h1
  · exact absurd h1 hne
  · cases hl : ScanSwitch.tplOps.lookup e.1 with
    | none => rw [hl] at h1; cases h1
    | some t => rw [hl] at h1; exact ⟨t, rfl, h1⟩

/-- `*`: TPL adds the branch for `**`; TPL-only first bytes: `@` -/
theorem C32_switch_differences :
    (∃ t0 t1, ScanSwitch.xgoOps.lookup 0x2A = some (.test 0x3D t1 t0) ∧
      ∃ u0 u1 p, ScanSwitch.tplOps.lookup 0x2A = some (.test 0x3D u1 (.test 0x2A p u0)) ∧
        sameTrie u0 t0 = true ∧ sameTrie u1 t1 = true ∧ p = .leaf Tokens.Tpl.POW false 0) ∧
    (ScanSwitch.tplOps.filter fun e => (ScanSwitch.xgoOps.lookup e.1).isNone).map (·.1) = [0x40] := by
  refine ⟨⟨_, _, rfl, _, _, _, rfl, by decide +kernel, by decide +kernel, by decide +kernel⟩, by decide +kernel⟩

/-- the token classes produced by the hand-written cases have the same `String()` -/
theorem C32_literal_kinds_same_name :
    [kindName .tpl tplCodes.ILLEGAL, kindName .tpl tplCodes.EOF, kindName .tpl tplCodes.COMMENT,
     kindName .tpl tplCodes.IDENT, kindName .tpl tplCodes.INT, kindName .tpl tplCodes.FLOAT,
     kindName .tpl tplCodes.IMAG, kindName .tpl tplCodes.CHAR, kindName .tpl tplCodes.STRING,
     kindName .tpl tplCodes.RAT, kindName .tpl tplCodes.UNIT, kindName .tpl tplCodes.SEMICOLON,
     kindName .tpl tplCodes.PERIOD, kindName .tpl tplCodes.ELLIPSIS] =
    [kindName .xgo xgoCodes.ILLEGAL, kindName .xgo xgoCodes.EOF, kindName .xgo xgoCodes.COMMENT,
     kindName .xgo xgoCodes.IDENT, kindName .xgo xgoCodes.INT, kindName .xgo xgoCodes.FLOAT,
     kindName .xgo xgoCodes.IMAG, kindName .xgo xgoCodes.CHAR, kindName .xgo xgoCodes.STRING,
     kindName .xgo xgoCodes.RAT, kindName .xgo xgoCodes.UNIT, kindName .xgo xgoCodes.SEMICOLON,
     kindName .xgo xgoCodes.PERIOD, kindName .xgo xgoCodes.ELLIPSIS] := by
  decide +kernel

/-! ## Witnesses: the exclusions of the domain are real differences -/

def srcKeyword : Array UInt8 := #[0x69, 0x66, 0x0A, 0x78]            -- "if\nx": TPL inserts ';' after every identifier
def srcPow : Array UInt8 := #[0x61, 0x2A, 0x2A, 0x62]                -- "a**b"
def srcCRComment : Array UInt8 := #[0x2F, 0x2A, 0x2A, 0x0D, 0x2F, 0x2A, 0x2F]   -- "/**\r/*/": XGo keeps this CR
def srcUnit : Array UInt8 := #[0x31, 0x6B, 0x6D, 0x20, 0x78]         -- "1km x"

theorem C32_exclusions_are_differences :
    (agree32 (scan (cfg .tpl true) srcKeyword) (scan (cfg .xgo true) srcKeyword) = false ∧
      sharedLexemesOnly noU true false srcKeyword = false) ∧
    (agree32 (scan (cfg .tpl true) srcPow) (scan (cfg .xgo true) srcPow) = false ∧
      sharedLexemesOnly noU true false srcPow = false) ∧
    (agree32 (scan (cfg .tpl true) srcCRComment) (scan (cfg .xgo true) srcCRComment) = false ∧
      sharedLexemesOnly noU true false srcCRComment = false) := by
  decide +kernel

/-- `# line f:0` at the beginning of a line: XGo takes it for a line directive and reports
"invalid line number", TPL does not (same tokens); outside the domain -/
def srcLineDir : Array UInt8 := #[0x23, 0x20, 0x6C, 0x69, 0x6E, 0x65, 0x20, 0x66, 0x3A, 0x30]

theorem C32_line_directive_differs :
    agree32 (scan (cfg .tpl true) srcLineDir) (scan (cfg .xgo true) srcLineDir) = true ∧
    (scan (cfg .tpl true) srcLineDir).errs = [] ∧ (scan (cfg .xgo true) srcLineDir).errs.length = 1 ∧
    sharedLexemesOnly noU true false srcLineDir = false := by decide +kernel

/-- number + unit followed by white space: both scanners report the unit right behind the number -/
theorem C32_unit_offset_witness :
    sharedLexemesOnly noU true false srcUnit = true ∧
    agree32 (scan (cfg .tpl true) srcUnit) (scan (cfg .xgo true) srcUnit) = true ∧
    ((scan (cfg .xgo true) srcUnit).toks.map fun t => (t.pos, t.stop)) = [(0, 1), (1, 3), (4, 5), (5, 5), (5, 5)] := by
  decide +kernel

/-- `x := f(a..., 1.5e3) # c` + newline + `y <- "s" ~ 'c'` -/
def srcIn : Array UInt8 :=
  #[0x78, 0x20, 0x3A, 0x3D, 0x20, 0x66, 0x28, 0x61, 0x2E, 0x2E, 0x2E, 0x2C, 0x20, 0x31, 0x2E, 0x35, 0x65, 0x33, 0x29,
    0x20, 0x23, 0x20, 0x63, 0x0A, 0x79, 0x20, 0x3C, 0x2D, 0x20, 0x22, 0x73, 0x22, 0x20, 0x7E, 0x20, 0x27, 0x63, 0x27]

theorem C32_domain_examples :
    sharedLexemesOnly noU true false srcIn = true ∧ sharedLexemesOnly noU false false srcIn = true ∧
    agree32 (scan (cfg .tpl true) srcIn) (scan (cfg .xgo true) srcIn) = true ∧
    agree32 (scan (cfg .tpl false) srcIn) (scan (cfg .xgo false) srcIn) = true ∧
    12 ≤ (scan (cfg .xgo true) srcIn).toks.length := by
  decide +kernel

end GopModel.Scan.C32
