/-
C32 — the TPL scanner tokenises like the XGo scanner.

Statement (full strength), over the scanner model M1 with dialects `tpl` (tpl/scanner/scanner.go)
and `xgo` (scanner/scanner.go):

    theorem tpl_eq_xgo (U : UCls) (src : Array UInt8) (comments noSemis : Bool) :
        sharedLexemesOnly U comments noSemis src = true →
        agree32 (scan ⟨.tpl, comments, noSemis, U⟩ src) (scan ⟨.xgo, comments, noSemis, U⟩ src) = true

(`agree32`: both runs finish and return the same token boundaries (offsets), kinds (by `String()`),
literals and inserted semicolons; `sharedLexemesOnly`: Model/ScanDomain.lean).

PARTIAL.  Proved here, over the tables REGENERATED on every run:
  * `C32_switch_agrees_by_spelling`: for every first byte except `*`, the decision tries of the
    two operator switches have the same shape, the same `insertSemi` and parenthesis effects and
    leaves with the same spelling (`String()`); `*` differs only by TPL's `**`; TPL has two more
    cases, `~`… none any more (`~` is scanned by both since the fix), `@`;
  * `C32_literal_kinds_same_name`: the literal classes, COMMENT, EOF, ILLEGAL, `;`, `.`, `...` have
    the same `String()` in both packages;
  * the differences that define the domain are real (witnesses): keywords, `**`, CR in a
    general comment, `c"…"`;
  * the UNIT offset (fixed in both scanners by 585e2ea) agrees: `C32_unit_offset_witness`.
The general statement is NOT proved in Lean; it is checked by the differential run
(harness/cmd/c32) on the real scanners for every generated input, with the model's domain
decision and comparison cross-checked.
-/
import GopModel.Model.ScanDomain
namespace GopModel.Scan.C32
open GopModel.Generated GopModel.Scan

def noU : UCls := { isLetter := fun _ => false, isDigit := fun _ => false }
def cfg (d : Dialect) (comments : Bool) : Cfg := { d := d, comments := comments, noSemis := false, U := noU }

/-- two tries have the same shape, flags, and leaves with the same spelling -/
def sameTrie : Trie → Trie → Bool
  | .leaf a s1 p1, .leaf b s2 p2 =>
    s1 == s2 && p1 == p2 && kindName .tpl a == kindName .xgo b && (kindName .tpl a).isSome
  | .test c1 y1 n1, .test c2 y2 n2 => c1 == c2 && sameTrie y1 y2 && sameTrie n1 n2
  | _, _ => false

/-- For every first byte but `*` that the XGo switch handles, the TPL switch decides in the
same way, by spelling. -/
theorem C32_switch_agrees_by_spelling :
    ∀ e ∈ ScanSwitch.xgoOps, e.1 ≠ 0x2A →
      ∃ t, ScanSwitch.tplOps.lookup e.1 = some t ∧ sameTrie t e.2 = true := by
  have h : (ScanSwitch.xgoOps.all fun e => e.1 == 0x2A ||
      match ScanSwitch.tplOps.lookup e.1 with
      | some t => sameTrie t e.2
      | none => false) = true := by decide +kernel
  intro e he hne
  have := (List.all_eq_true.mp h) e he
  simp only [Bool.or_eq_true, beq_iff_eq] at this
  rcases this with h1 | h1
  · exact absurd h1 hne
  · cases hl : ScanSwitch.tplOps.lookup e.1 with
    | none => rw [hl] at h1; cases h1
    | some t => rw [hl] at h1; exact ⟨t, rfl, h1⟩

/-- `*`: TPL adds the branch for `**`; TPL-only first bytes: `@` -/
theorem C32_switch_differences :
    (∃ t0 t1, ScanSwitch.xgoOps.lookup 0x2A = some (.test 0x3D t1 t0) ∧
      ∃ u0 u1 p, ScanSwitch.tplOps.lookup 0x2A = some (.test 0x3D u1 (.test 0x2A p u0)) ∧
        sameTrie u0 t0 = true ∧ sameTrie u1 t1 = true ∧ p = .leaf Tokens.Tpl.POW false 0) ∧
    (ScanSwitch.tplOps.filter fun e => (ScanSwitch.xgoOps.lookup e.1).isNone).map (·.1) = [0x40] := by
  refine ⟨⟨_, _, rfl, _, _, _, rfl, by decide +kernel, by decide +kernel, by decide +kernel⟩, by decide +kernel⟩

/-- the token classes produced by the hand-written cases have the same `String()` -/
theorem C32_literal_kinds_same_name :
    [kindName .tpl tplCodes.ILLEGAL, kindName .tpl tplCodes.EOF, kindName .tpl tplCodes.COMMENT,
     kindName .tpl tplCodes.IDENT, kindName .tpl tplCodes.INT, kindName .tpl tplCodes.FLOAT,
     kindName .tpl tplCodes.IMAG, kindName .tpl tplCodes.CHAR, kindName .tpl tplCodes.STRING,
     kindName .tpl tplCodes.RAT, kindName .tpl tplCodes.UNIT, kindName .tpl tplCodes.SEMICOLON,
     kindName .tpl tplCodes.PERIOD, kindName .tpl tplCodes.ELLIPSIS] =
    [kindName .xgo xgoCodes.ILLEGAL, kindName .xgo xgoCodes.EOF, kindName .xgo xgoCodes.COMMENT,
     kindName .xgo xgoCodes.IDENT, kindName .xgo xgoCodes.INT, kindName .xgo xgoCodes.FLOAT,
     kindName .xgo xgoCodes.IMAG, kindName .xgo xgoCodes.CHAR, kindName .xgo xgoCodes.STRING,
     kindName .xgo xgoCodes.RAT, kindName .xgo xgoCodes.UNIT, kindName .xgo xgoCodes.SEMICOLON,
     kindName .xgo xgoCodes.PERIOD, kindName .xgo xgoCodes.ELLIPSIS] := by
  decide +kernel

/-! ## Witnesses: the exclusions of the domain are real differences -/

def srcKeyword : Array UInt8 := #[0x69, 0x66, 0x0A, 0x78]            -- "if\nx": TPL inserts ';' after every identifier
def srcPow : Array UInt8 := #[0x61, 0x2A, 0x2A, 0x62]                -- "a**b"
def srcCRComment : Array UInt8 := #[0x2F, 0x2A, 0x2A, 0x0D, 0x2F, 0x2A, 0x2F]   -- "/**\r/*/": XGo keeps this CR
def srcUnit : Array UInt8 := #[0x31, 0x6B, 0x6D, 0x20, 0x78]         -- "1km x"

theorem C32_exclusions_are_differences :
    (agree32 (scan (cfg .tpl true) srcKeyword) (scan (cfg .xgo true) srcKeyword) = false ∧
      sharedLexemesOnly noU true false srcKeyword = false) ∧
    (agree32 (scan (cfg .tpl true) srcPow) (scan (cfg .xgo true) srcPow) = false ∧
      sharedLexemesOnly noU true false srcPow = false) ∧
    (agree32 (scan (cfg .tpl true) srcCRComment) (scan (cfg .xgo true) srcCRComment) = false ∧
      sharedLexemesOnly noU true false srcCRComment = false) := by
  decide +kernel

/-- number + unit followed by white space: both scanners report the unit right behind the number -/
theorem C32_unit_offset_witness :
    sharedLexemesOnly noU true false srcUnit = true ∧
    agree32 (scan (cfg .tpl true) srcUnit) (scan (cfg .xgo true) srcUnit) = true ∧
    ((scan (cfg .xgo true) srcUnit).toks.map fun t => (t.pos, t.stop)) = [(0, 1), (1, 3), (4, 5), (5, 5), (5, 5)] := by
  decide +kernel

/-- `x := f(a..., 1.5e3) # c` + newline + `y <- "s" ~ 'c'` -/
def srcIn : Array UInt8 :=
  #[0x78, 0x20, 0x3A, 0x3D, 0x20, 0x66, 0x28, 0x61, 0x2E, 0x2E, 0x2E, 0x2C, 0x20, 0x31, 0x2E, 0x35, 0x65, 0x33, 0x29,
    0x20, 0x23, 0x20, 0x63, 0x0A, 0x79, 0x20, 0x3C, 0x2D, 0x20, 0x22, 0x73, 0x22, 0x20, 0x7E, 0x20, 0x27, 0x63, 0x27]

theorem C32_domain_examples :
    sharedLexemesOnly noU true false srcIn = true ∧ sharedLexemesOnly noU false false srcIn = true ∧
    agree32 (scan (cfg .tpl true) srcIn) (scan (cfg .xgo true) srcIn) = true ∧
    agree32 (scan (cfg .tpl false) srcIn) (scan (cfg .xgo false) srcIn) = true ∧
    12 ≤ (scan (cfg .xgo true) srcIn).toks.length := by
  decide +kernel

end GopModel.Scan.C32
