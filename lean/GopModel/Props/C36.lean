/-
C36 — the import cache key changes exactly when package sources change.

Stated on the SHA-256 *preimage* (DESIGN §2.6): `preimage cfg listing` is the exact byte string
`dirHash` feeds to the hash.  The theorems say that this byte string determines, and is
determined by, the list/set of `(name, size, mtime)` records of the relevant entries
(non-directory, no underscore prefix, compilable, `Info()` available) — for every listing, every
`IsClass` function, every version strings and both values of `self`; with no restriction on the
bytes of file names (the record encoding writes the name in hex since the `fix:` commit; the
previous raw encoding is shown non-injective below).
-/
import GopModel.Lemmas.DirHash
namespace GopModel.DirHash
open GopModel.DirClassify (ext dotGo dotXgo dotGop dotGox underscore)

/-- Records of a directory read (`none` = `os.ReadDir` failed: hashed like an empty directory). -/
def relevantO (isClass : Name → Bool) : Option (List Entry) → List Rec
  | some l => relevant isClass l
  | none => []

theorem preimage_eq (c : Config) (l : Option (List Entry)) :
    preimage c l = header c ++ (relevantO c.isClass l).flatMap line := by
  cases l <;> simp [preimage, relevantO]

/-! ## which entries count -/

/-- `canCl`: the four source extensions, or a registered class extension.  (The `_xxx.gox`
special case of `ClassExt` is never reached from `canCl`: `.gox` is accepted before.) -/
theorem C36_canCl_iff (isClass : Name → Bool) (n : Name) :
    canCl isClass n = true ↔
      ext n = dotGo ∨ ext n = dotXgo ∨ ext n = dotGop ∨ ext n = dotGox ∨ isClass (ext n) = true := by
  unfold canCl classExt
  by_cases h : ext n = dotGo ∨ ext n = dotXgo ∨ ext n = dotGop ∨ ext n = dotGox
  · simp only [h, if_true, true_iff]
    rcases h with h | h | h | h
    · exact Or.inl h
    · exact Or.inr (Or.inl h)
    · exact Or.inr (Or.inr (Or.inl h))
    · exact Or.inr (Or.inr (Or.inr (Or.inl h)))
  · have hx : ¬ ext n = dotGox := fun e => h (Or.inr (Or.inr (Or.inr e)))
    rw [if_neg h, if_neg hx]
    constructor
    · intro hc; exact Or.inr (Or.inr (Or.inr (Or.inr hc)))
    · rintro (e | e | e | e | e)
      · exact absurd (Or.inl e) h
      · exact absurd (Or.inr (Or.inl e)) h
      · exact absurd (Or.inr (Or.inr (Or.inl e))) h
      · exact absurd e hx
      · exact e

/-- An entry contributes a record exactly when it is a non-directory whose name has no
underscore prefix and is compilable and whose `Info()` is available; the record is its
name, size and modification time. -/
theorem C36_relevant_iff (isClass : Name → Bool) (e : Entry) (r : Rec) :
    relevantOf isClass e = some r ↔
      e.isDir = false ∧ underscore e.name = false ∧ canCl isClass e.name = true ∧
      e.info = some (r.2.1, r.2.2) ∧ r.1 = e.name := by
  obtain ⟨n, s, m⟩ := r
  unfold relevantOf
  cases hd : e.isDir <;> cases hu : underscore e.name <;> cases hc : canCl isClass e.name <;>
    cases hi : e.info <;> simp
  rename_i v
  obtain ⟨s', m'⟩ := v
  simp only [Prod.mk.injEq]
  constructor
  · rintro ⟨a, b, c⟩; exact ⟨⟨b, c⟩, a.symm⟩
  · rintro ⟨⟨b, c⟩, a⟩; exact ⟨a.symm, b, c⟩

/-! ## C36: the preimage determines and is determined by the relevant records -/

/-- Two directory states have the same hash preimage exactly when their relevant record lists
are equal — for arbitrary file-name bytes. -/
theorem C36_preimage_inj (c : Config) (l₁ l₂ : Option (List Entry)) :
    preimage c l₁ = preimage c l₂ ↔ relevantO c.isClass l₁ = relevantO c.isClass l₂ := by
  rw [preimage_eq, preimage_eq]
  constructor
  · intro h; exact flatMap_line_inj (List.append_cancel_left h)
  · intro h; rw [h]

/-- Lifted to histories: along any sequence of directory states (whatever the operations in
between were), the preimage at time `i` equals the one at time `j` exactly when the relevant
records at the two times are equal.  In particular (`j = i + 1`) the hash input changes at a
step iff the step changed the relevant records. -/
theorem C36_history (c : Config) (states : List (Option (List Entry))) (i j : Nat)
    (hi : i < states.length) (hj : j < states.length) :
    preimage c states[i] = preimage c states[j] ↔
      relevantO c.isClass states[i] = relevantO c.isClass states[j] :=
  C36_preimage_inj c _ _

/-- Changes that touch only other entries leave the preimage unchanged: adding, removing or
altering entries that contribute no record (directories, underscore-prefixed, non-compilable)
anywhere in the listing. -/
theorem C36_irrelevant_entries_ignored (c : Config) (a b others others' : List Entry)
    (h : ∀ e ∈ others, relevantOf c.isClass e = none)
    (h' : ∀ e ∈ others', relevantOf c.isClass e = none) :
    preimage c (some (a ++ others ++ b)) = preimage c (some (a ++ others' ++ b)) := by
  rw [C36_preimage_inj]
  have hn : ∀ l : List Entry, (∀ e ∈ l, relevantOf c.isClass e = none) →
      List.filterMap (relevantOf c.isClass) l = [] := by
    intro l hl
    rw [List.filterMap_eq_nil_iff]; exact hl
  simp [relevantO, relevant, List.filterMap_append, hn _ h, hn _ h']

/-- An edit or touch of a relevant file (same place in the listing, different size or
modification time — or a different name) changes the preimage. -/
theorem C36_change_detected (c : Config) (a b : List Entry) (e e' : Entry) (r r' : Rec)
    (he : relevantOf c.isClass e = some r) (he' : relevantOf c.isClass e' = some r') (hne : r ≠ r') :
    preimage c (some (a ++ e :: b)) ≠ preimage c (some (a ++ e' :: b)) := by
  rw [Ne, C36_preimage_inj]
  simp only [relevantO, relevant, List.filterMap_append, List.filterMap_cons, he, he']
  intro h
  have := List.append_cancel_left h
  simp only [List.cons.injEq] at this
  exact hne this.1

/-- A relevant file appearing or disappearing changes the preimage. -/
theorem C36_appear_disappear_detected (c : Config) (a b : List Entry) (e : Entry) (r : Rec)
    (he : relevantOf c.isClass e = some r) :
    preimage c (some (a ++ e :: b)) ≠ preimage c (some (a ++ b)) := by
  rw [Ne, C36_preimage_inj]
  simp only [relevantO, relevant, List.filterMap_append, List.filterMap_cons, he]
  intro h
  have := congrArg List.length h
  simp at this

/-- Set reading, direction "changes whenever": if some record is in one state's relevant set
and not in the other's, the preimages differ. -/
theorem C36_set_differs_detected (c : Config) (l₁ l₂ : Option (List Entry)) (r : Rec)
    (h : ¬(r ∈ relevantO c.isClass l₁ ↔ r ∈ relevantO c.isClass l₂)) :
    preimage c l₁ ≠ preimage c l₂ := by
  intro he
  rw [C36_preimage_inj] at he
  rw [he] at h
  exact h Iff.rfl

/-- Set reading, direction "stays the same": `os.ReadDir` returns entries sorted by file name
(strictly increasing for any strict order `lt`, here abstract); then equal relevant *sets*
give equal preimages. -/
theorem C36_same_set_same_preimage (c : Config) (lt : Name → Name → Prop)
    (irrefl : ∀ a, ¬lt a a) (asymm : ∀ a b, lt a b → ¬lt b a)
    (l₁ l₂ : List Entry)
    (s₁ : l₁.Pairwise (fun x y => lt x.name y.name)) (s₂ : l₂.Pairwise (fun x y => lt x.name y.name))
    (h : ∀ r, r ∈ relevant c.isClass l₁ ↔ r ∈ relevant c.isClass l₂) :
    preimage c (some l₁) = preimage c (some l₂) := by
  rw [C36_preimage_inj]
  have key : ∀ l : List Entry, l.Pairwise (fun x y => lt x.name y.name) →
      (relevant c.isClass l).Pairwise (fun r s => lt r.1 s.1) := by
    intro l hl
    unfold relevant
    refine List.Pairwise.filterMap _ ?_ hl
    intro x y hxy r hr s hs
    rw [((C36_relevant_iff _ _ _).mp hr).2.2.2.2, ((C36_relevant_iff _ _ _).mp hs).2.2.2.2]
    exact hxy
  exact eq_of_pairwise_of_mem_iff (fun r s : Rec => lt r.1 s.1) (fun r => irrefl r.1)
    (fun r s => asymm r.1 s.1) _ _ (key l₁ s₁) (key l₂ s₂) h

/-- The same for the order `os.ReadDir` really uses (byte-wise lexicographic file names):
two sorted listings whose relevant record *sets* agree have the same preimage. -/
theorem C36_same_set_same_preimage_sorted (c : Config) (l₁ l₂ : List Entry)
    (s₁ : l₁.Pairwise (fun x y => x.name < y.name)) (s₂ : l₂.Pairwise (fun x y => x.name < y.name))
    (h : ∀ r, r ∈ relevant c.isClass l₁ ↔ r ∈ relevant c.isClass l₂) :
    preimage c (some l₁) = preimage c (some l₂) :=
  C36_same_set_same_preimage c (fun a b => a < b) (fun a => List.lt_irrefl a)
    (fun _ _ h => List.lt_asymm h) l₁ l₂ s₁ s₂ h

/-! ## the encoding before the fix was not injective -/

def oldA : Name := [0x61, 0x2e, 0x67, 0x6f]      -- "a.go"
def oldB : Name := [0x62, 0x2e, 0x67, 0x6f]      -- "b.go"
/-- "a.go\t1\t2\nfile\tb.go" — one file name that spells the end of one record and the
beginning of the next. -/
def oldAB : Name := oldA ++ [0x09, 0x31, 0x09, 0x32, 0x0a] ++ fileTag ++ [0x09] ++ oldB

def cfgNone : Config := ⟨false, [], [], fun _ => false⟩
def oldDir1 : List Entry := [⟨oldAB, false, some (3, 4)⟩]
def oldDir2 : List Entry := [⟨oldA, false, some (1, 2)⟩, ⟨oldB, false, some (3, 4)⟩]

/-- With the raw `%s` name (the code before the `fix:` commit) two directories with different
relevant files had the same preimage, hence the same hash: a file name containing `\t` and
`\n`.  (Replayed on the real code: see design_notes/C36.md.) -/
theorem C36_old_encoding_collides :
    preimageOld cfgNone (some oldDir1) = preimageOld cfgNone (some oldDir2) ∧
    relevant cfgNone.isClass oldDir1 ≠ relevant cfgNone.isClass oldDir2 := by
  constructor <;> decide

/-- The same two directories are told apart by the current encoding. -/
theorem C36_fixed_encoding_separates :
    preimage cfgNone (some oldDir1) ≠ preimage cfgNone (some oldDir2) := by
  rw [Ne, C36_preimage_inj]; decide

/-! ## Non-vacuity -/

def spx : Name := [0x2e, 0x73, 0x70, 0x78]
def cfgSpx : Config := ⟨true, [0x67], [0x78], fun e => e == spx⟩
def zSpx : Name := [0x7a, 0x2e, 0x73, 0x70, 0x78]            -- "z.spx"
def uGo : Name := [0x5f, 0x61, 0x2e, 0x67, 0x6f]             -- "_a.go"
def yTxt : Name := [0x79, 0x2e, 0x74, 0x78, 0x74]            -- "y.txt"

example : relevant cfgSpx.isClass
    [⟨uGo, false, some (1, 1)⟩, ⟨oldA, false, some (10, -5)⟩, ⟨oldB, true, some (0, 0)⟩,
     ⟨yTxt, false, some (2, 2)⟩, ⟨zSpx, false, some (7, 1700000000000000000)⟩] =
    [(oldA, 10, -5), (zSpx, 7, 1700000000000000000)] := by decide

/-- hypotheses of `C36_same_set_same_preimage_sorted` on a concrete pair of sorted listings
that differ in irrelevant entries only -/
example : ([⟨uGo, false, some (1, 1)⟩, ⟨oldA, false, some (10, -5)⟩, ⟨yTxt, false, some (2, 2)⟩] : List Entry).Pairwise
    (fun x y => x.name < y.name) := by decide
example : ([⟨oldA, false, some (10, -5)⟩, ⟨oldB, true, none⟩] : List Entry).Pairwise
    (fun x y => x.name < y.name) := by decide
example : relevant cfgSpx.isClass [⟨uGo, false, some (1, 1)⟩, ⟨oldA, false, some (10, -5)⟩, ⟨yTxt, false, some (2, 2)⟩] =
    relevant cfgSpx.isClass [⟨oldA, false, some (10, -5)⟩, ⟨oldB, true, none⟩] := by decide

example : relevantOf cfgSpx.isClass ⟨uGo, false, some (1, 1)⟩ = none := by decide
example : relevantOf cfgNone.isClass ⟨zSpx, false, some (1, 1)⟩ = none := by decide
example : line (oldA, 255, -2) =
    fileTag ++ [0x09, 0x36, 0x31, 0x32, 0x65, 0x36, 0x37, 0x36, 0x66, 0x09, 0x66, 0x66, 0x09, 0x2d, 0x32, 0x0a] := by
  decide

end GopModel.DirHash
