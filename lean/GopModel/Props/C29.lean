/-
C29 — grammar matching follows the documented TPL semantics (tpl/README.md).

Theorems about `GopModel.Tpl.matchF` (Model/TplMatch.lean), the transcription of every `Match`
method of tpl/matcher/match.go.  Each theorem is a README sentence; they hold for every
grammar, token list, position, fuel and return procedures.
-/
import GopModel.Lemmas.TplMatch
import GopModel.Lemmas.TplTerm
namespace GopModel.Tpl

variable {α : Type}

/-! ## tokens, keywords, literals -/

/-- A basic token `INT`, `"+"`, … matches exactly one token of its kind; result is the token. -/
theorem C29_token (c : Cx α) (f k : Nat) (label : Bytes) (i : Nat) :
    matchF c (f + 1) (.tok k label) i =
      match c.toks[i]? with
      | none => (.fail 0 (.expect label c.fileEnd), [])
      | some t => if t.kind = k then (.ok 1 (.tok i), []) else (.fail 0 (.expect label t.pos), []) := by
  cases h : c.toks[i]? with
  | none => simp [matchF, h]
  | some t => by_cases h1 : t.kind = k <;> simp [matchF, h, h1]

/-- A keyword `"if"` is an `IDENT` token (kind `k`) whose text is the keyword. -/
theorem C29_keyword_is_ident_lit (c : Cx α) (f k : Nat) (l : Bytes) (i : Nat) :
    matchF c (f + 1) (.lit k l) i =
      match c.toks[i]? with
      | none => (.fail 0 (.expect l c.fileEnd), [])
      | some t =>
        if t.kind = k ∧ t.lit = l then (.ok 1 (.tok i), []) else (.fail 0 (.expect l t.pos), []) := by
  cases h : c.toks[i]? with
  | none => simp [matchF, h]
  | some t => by_cases h1 : t.kind = k <;> by_cases h2 : t.lit = l <;> simp [matchF, h, h1, h2]

/-- The empty literal `""` (`True`) always succeeds without consuming. -/
theorem C29_true (c : Cx α) (f i : Nat) : matchF c (f + 1) .tru i = (.ok 0 .nil, []) := rfl

/-! ## alternatives: ordered choice with the commit (`stops`) rule -/

/-- An option "passes the turn" when it fails and either consumed nothing or may not commit. -/
def Passes (o : Out (V α)) (stop : Option Bool) : Prop :=
  ∃ n e l, o = (.fail n e, l) ∧ (n ≤ 0 ∨ stop = some false)

theorem choiceLoop_ordered (m : G → Out (V α)) (g : G) (post : List G) (n : Nat) (r : V α) (l : Log)
    (hg : m g = (.ok n r, l)) :
    ∀ (pre : List G) (stops : List Bool) nMax errMax multi,
      (∀ j (hj : j < pre.length), Passes (m pre[j]) stops[j]?) →
      (choiceLoop m (pre ++ g :: post) stops nMax errMax multi).1 = .ok n r := by
  intro pre
  induction pre with
  | nil => intro stops nMax errMax multi _; simp [choiceLoop, hg]
  | cons p ps ih =>
    intro stops nMax errMax multi h
    obtain ⟨n1, e1, l1, hp, hc⟩ := h 0 (by simp)
    simp only [List.getElem_cons_zero] at hp
    have hrest : ∀ nm em mu, (choiceLoop m (ps ++ g :: post) stops.tail nm em mu).1 = .ok n r := by
      intro nm em mu
      apply ih
      intro j hj
      have := h (j + 1) (by simp; omega)
      simpa [List.getElem?_tail] using this
    simp only [List.cons_append, choiceLoop, hp]
    by_cases hn : n1 > 0
    · simp only [hn, if_true]
      rcases hc with hc | hc
      · omega
      · cases stops with
        | nil => simp at hc
        | cons s st =>
          simp only [List.getElem?_cons_zero, Option.some.injEq] at hc
          subst hc
          simp only [Bool.false_eq_true, if_false]
          exact hrest _ _ _
    · simp only [hn, if_false]
      exact hrest _ _ _

/-- Ordered choice: the first option that succeeds determines the result, if the options
before it fail without committing (they consumed nothing, or share a first token with a
later option). -/
theorem C29_choice_ordered (c : Cx α) (f : Nat) (pre : List G) (g : G) (post : List G)
    (stops : List Bool) (i n : Nat) (r : V α) (l : Log)
    (hpre : ∀ j (hj : j < pre.length), Passes (matchF c f pre[j] i) stops[j]?)
    (hg : matchF c f g i = (.ok n r, l)) :
    (matchF c (f + 1) (.choice (pre ++ g :: post) stops) i).1 = .ok n r := by
  rw [matchF_choice]
  exact choiceLoop_ordered _ g post n r l hg pre stops _ _ _ hpre

theorem choiceLoop_commit (m : G → Out (V α)) (g : G) (post : List G) (n : Int) (e : Err) (l : Log)
    (hg : m g = (.fail n e, l)) (hn : n > 0) :
    ∀ (pre : List G) (stops : List Bool) nMax errMax multi,
      (∀ j (hj : j < pre.length), Passes (m pre[j]) stops[j]?) →
      stops[pre.length]? = some true →
      (choiceLoop m (pre ++ g :: post) stops nMax errMax multi).1 = .fail n e := by
  intro pre
  induction pre with
  | nil =>
    intro stops nMax errMax multi _ hs
    cases stops with
    | nil => simp at hs
    | cons s st =>
      simp only [List.length_nil, List.getElem?_cons_zero, Option.some.injEq] at hs
      subst hs
      simp [choiceLoop, hg, hn]
  | cons p ps ih =>
    intro stops nMax errMax multi h hs
    obtain ⟨n1, e1, l1, hp, hc⟩ := h 0 (by simp)
    simp only [List.getElem_cons_zero] at hp
    have hrest : ∀ nm em mu, (choiceLoop m (ps ++ g :: post) stops.tail nm em mu).1 = .fail n e := by
      intro nm em mu
      apply ih
      · intro j hj
        have := h (j + 1) (by simp; omega)
        simpa [List.getElem?_tail] using this
      · simpa [List.getElem?_tail] using hs
    simp only [List.cons_append, choiceLoop, hp]
    by_cases hn1 : n1 > 0
    · simp only [hn1, if_true]
      rcases hc with hc | hc
      · omega
      · cases stops with
        | nil => simp at hc
        | cons s st =>
          simp only [List.getElem?_cons_zero, Option.some.injEq] at hc
          subst hc
          simp only [Bool.false_eq_true, if_false]
          exact hrest _ _ _
    · simp only [hn1, if_false]
      exact hrest _ _ _

/-- Commit: an option that consumed input before failing and shares no first token with a
later option (`stops`) ends the choice with its own failure; later options are not tried. -/
theorem C29_choice_commit (c : Cx α) (f : Nat) (pre : List G) (g : G) (post : List G)
    (stops : List Bool) (i : Nat) (n : Int) (e : Err) (l : Log)
    (hpre : ∀ j (hj : j < pre.length), Passes (matchF c f pre[j] i) stops[j]?)
    (hg : matchF c f g i = (.fail n e, l)) (hn : n > 0) (hs : stops[pre.length]? = some true) :
    (matchF c (f + 1) (.choice (pre ++ g :: post) stops) i).1 = .fail n e := by
  rw [matchF_choice]
  exact choiceLoop_commit _ g post n e l hg hn pre stops _ _ _ hpre hs

/-- A choice succeeds only with the result of one of its options at the same position. -/
theorem C29_choice_result (c : Cx α) (f : Nat) (opts : List G) (stops : List Bool) (i n : Nat)
    (r : V α) (l : Log) (h : matchF c (f + 1) (.choice opts stops) i = (.ok n r, l)) :
    ∃ g ∈ opts, ∃ l', matchF c f g i = (.ok n r, l') := by
  rw [matchF_choice] at h
  exact choiceLoop_ok _ _ _ _ _ _ _ _ _ h

/-! ## sequence: an n-element list -/

/-- `SeqRun m items p n rs`: the items succeed one after the other from position `p`,
consuming `n` tokens in total, with results `rs` (one per item, in order). -/
def SeqRun (m : G → Nat → Out (V α)) : List G → Nat → Nat → List (V α) → Prop
  | [], _, n, rs => n = 0 ∧ rs = []
  | g :: gs, p, n, rs =>
    ∃ n1 r1 l1 n2 rs2, m g p = (.ok n1 r1, l1) ∧ SeqRun m gs (p + n1) n2 rs2 ∧
      n = n1 + n2 ∧ rs = r1 :: rs2

theorem SeqRun.length {m : G → Nat → Out (V α)} : ∀ {items : List G} {p n : Nat} {rs : List (V α)},
    SeqRun m items p n rs → rs.length = items.length := by
  intro items
  induction items with
  | nil => intro p n rs h; simp only [SeqRun] at h; simp [h.2]
  | cons g gs ih =>
    intro p n rs h
    obtain ⟨n1, r1, l1, n2, rs2, _, h2, _, rfl⟩ := h
    simp [ih h2]

theorem seqLoop_ok_iff (m : G → Nat → Out (V α)) : ∀ (items : List G) (p n : Nat) (rs : List (V α)),
    (∃ l, seqLoop m items p = (.ok n rs, l)) ↔ SeqRun m items p n rs := by
  intro items
  induction items with
  | nil =>
    intro p n rs
    simp only [seqLoop, SeqRun, Prod.mk.injEq, Res.ok.injEq]
    constructor
    · rintro ⟨l, ⟨h1, h2⟩, _⟩; exact ⟨h1.symm, h2.symm⟩
    · rintro ⟨h1, h2⟩; exact ⟨[], ⟨h1.symm, h2.symm⟩, rfl⟩
  | cons g gs ih =>
    intro p n rs
    constructor
    · rintro ⟨l, h⟩
      rcases hm : m g p with ⟨r1, l1⟩
      cases r1 with
      | ok n1 v1 =>
        rcases hr : seqLoop m gs (p + n1) with ⟨r2, l2⟩
        cases r2 with
        | ok n2 rs2 =>
          simp only [seqLoop, hm, hr, Prod.mk.injEq, Res.ok.injEq] at h
          exact ⟨n1, v1, l1, n2, rs2, hm, (ih (p + n1) n2 rs2).mp ⟨l2, hr⟩, h.1.1.symm, h.1.2.symm⟩
        | fail n2 e => simp [seqLoop, hm, hr] at h
        | abort a => simp [seqLoop, hm, hr] at h
      | fail n1 e => simp [seqLoop, hm] at h
      | abort a => simp [seqLoop, hm] at h
    · rintro ⟨n1, r1, l1, n2, rs2, hm, h2, rfl, rfl⟩
      obtain ⟨l2, hr⟩ := (ih (p + n1) n2 rs2).mpr h2
      exact ⟨l1 ++ l2, by simp [seqLoop, hm, hr]⟩

/-- `R1 R2 … Rn` succeeds iff the items succeed one after the other; the result is the list
of the n item results and the consumed count is the sum. -/
theorem C29_seq_shape (c : Cx α) (f : Nat) (items : List G) (i n : Nat) (v : V α) :
    (∃ l, matchF c (f + 1) (.seq items) i = (.ok n v, l)) ↔
      ∃ rs, v = .list rs ∧ rs.length = items.length ∧ SeqRun (fun g p => matchF c f g p) items i n rs := by
  rw [matchF_seq]
  constructor
  · rintro ⟨l, h⟩
    obtain ⟨rs, hrs, rfl⟩ := mapOut_ok _ _ _ _ _ h
    have hr := (seqLoop_ok_iff _ items i n rs).mp ⟨l, hrs⟩
    exact ⟨rs, rfl, hr.length, hr⟩
  · rintro ⟨rs, rfl, _, hr⟩
    obtain ⟨l, h⟩ := (seqLoop_ok_iff _ items i n rs).mpr hr
    exact ⟨l, by rw [h]; rfl⟩

theorem seqLoop_fail_at (m : G → Nat → Out (V α)) (g : G) (post : List G) :
    ∀ (pre : List G) (p n0 : Nat) (rs0 : List (V α)) (n1 : Int) (e : Err) (l1 : Log),
      SeqRun m pre p n0 rs0 → m g (p + n0) = (.fail n1 e, l1) →
      (seqLoop m (pre ++ g :: post) p).1 = .fail (n0 + n1) e := by
  intro pre
  induction pre with
  | nil =>
    intro p n0 rs0 n1 e l1 h hg
    simp only [SeqRun] at h
    obtain ⟨rfl, _⟩ := h
    simp only [Nat.add_zero] at hg
    simp [seqLoop, hg]
  | cons q qs ih =>
    intro p n0 rs0 n1 e l1 h hg
    obtain ⟨na, ra, la, nb, rsb, hq, hrest, rfl, rfl⟩ := h
    have := ih (p + na) nb rsb n1 e l1 hrest (by rw [Nat.add_assoc]; exact hg)
    rcases hr : seqLoop m (qs ++ g :: post) (p + na) with ⟨r2, l2⟩
    rw [hr] at this
    simp only at this
    subst this
    simp only [List.cons_append, seqLoop, hq, hr, Res.fail.injEq, and_true]
    omega

/-- A sequence fails at its first failing item, with that item's error; the reported count is
what the items before it consumed plus the failing item's own count. -/
theorem C29_seq_fail (c : Cx α) (f : Nat) (pre : List G) (g : G) (post : List G) (i n0 : Nat)
    (rs0 : List (V α)) (n1 : Int) (e : Err) (l1 : Log)
    (hpre : SeqRun (fun g p => matchF c f g p) pre i n0 rs0)
    (hg : matchF c f g (i + n0) = (.fail n1 e, l1)) :
    (matchF c (f + 1) (.seq (pre ++ g :: post)) i).1 = .fail (n0 + n1) e := by
  rw [matchF_seq]
  have := seqLoop_fail_at (fun g p => matchF c f g p) g post pre i n0 rs0 n1 e l1 hpre hg
  rcases hr : seqLoop (fun g p => matchF c f g p) (pre ++ g :: post) i with ⟨r2, l2⟩
  rw [hr] at this
  simp only at this
  subst this
  rfl

/-! ## repetition: greedy, no backtracking -/

/-- `Reps m p n rs`: the iterations of `*R` from position `p`: `R` succeeds with progress
`rs.length` times in a row (consuming `n` tokens in total) and then fails or matches the
empty input. -/
inductive Reps (m : Nat → Out (V α)) : Nat → Nat → List (V α) → Prop where
  | stopFail (p : Nat) (n : Int) (e : Err) (l : Log) : m p = (.fail n e, l) → Reps m p 0 []
  | stopEmpty (p : Nat) (r : V α) (l : Log) : m p = (.ok 0 r, l) → Reps m p 0 []
  | step (p n1 : Nat) (r1 : V α) (l1 : Log) (n2 : Nat) (rs : List (V α)) :
      m p = (.ok n1 r1, l1) → n1 > 0 → Reps m (p + n1) n2 rs → Reps m p (n1 + n2) (r1 :: rs)

theorem repLoop_ok (m : Nat → Out (V α)) (N : Nat) : ∀ (k p n : Nat) (rs : List (V α)) (l : Log),
    repLoop m N k p = (.ok n rs, l) → Reps m p n rs := by
  intro k
  induction k with
  | zero => intro p n rs l h; simp [repLoop] at h
  | succ k ih =>
    intro p n rs l h
    rcases hm : m p with ⟨r1, l1⟩
    cases r1 with
    | ok n1 v1 =>
      by_cases hn : n1 = 0
      · subst hn
        simp only [repLoop, hm, if_true, Prod.mk.injEq, Res.ok.injEq] at h
        obtain ⟨⟨rfl, rfl⟩, _⟩ := h
        exact .stopEmpty p v1 l1 hm
      · rcases hr : repLoop m N k (p + n1) with ⟨r2, l2⟩
        cases r2 with
        | ok n2 rs2 =>
          simp only [repLoop, hm, hn, if_false, hr, Prod.mk.injEq, Res.ok.injEq] at h
          obtain ⟨⟨rfl, rfl⟩, _⟩ := h
          exact .step p n1 v1 l1 n2 rs2 hm (by omega) (ih _ _ _ _ hr)
        | fail n2 e => simp [repLoop, hm, hn, hr] at h
        | abort a => simp [repLoop, hm, hn, hr] at h
    | fail n1 e =>
      simp only [repLoop, hm, Prod.mk.injEq, Res.ok.injEq] at h
      obtain ⟨⟨rfl, rfl⟩, _⟩ := h
      exact .stopFail p n1 e l1 hm
    | abort a => simp [repLoop, hm] at h

/-- The iterations are determined by the matcher: there is exactly one outcome (no choice of
where to stop, hence nothing to backtrack to). -/
theorem Reps.det {m : Nat → Out (V α)} {p n n' : Nat} {rs rs' : List (V α)}
    (h : Reps m p n rs) (h' : Reps m p n' rs') : n = n' ∧ rs = rs' := by
  induction h generalizing n' rs' with
  | stopFail p n e l hm =>
    cases h' with
    | stopFail => exact ⟨rfl, rfl⟩
    | stopEmpty => exact ⟨rfl, rfl⟩
    | step _ n1 r1 l1 n2 rs2 hm' => rw [hm] at hm'; simp at hm'
  | stopEmpty p r l hm =>
    cases h' with
    | stopFail => exact ⟨rfl, rfl⟩
    | stopEmpty => exact ⟨rfl, rfl⟩
    | step _ n1 r1 l1 n2 rs2 hm' hpos =>
      rw [hm] at hm'
      simp only [Prod.mk.injEq, Res.ok.injEq] at hm'
      omega
  | step p n1 r1 l1 n2 rs2 hm hpos _ ih =>
    cases h' with
    | stopFail _ n e l hm' => rw [hm] at hm'; simp at hm'
    | stopEmpty _ r l hm' =>
      rw [hm] at hm'
      simp only [Prod.mk.injEq, Res.ok.injEq] at hm'
      omega
    | step _ n1' r1' l1' n2' rs2' hm' hpos' hrest' =>
      rw [hm] at hm'
      simp only [Prod.mk.injEq, Res.ok.injEq] at hm'
      obtain ⟨⟨rfl, rfl⟩, rfl⟩ := hm'
      obtain ⟨rfl, rfl⟩ := ih hrest'
      exact ⟨rfl, rfl⟩

/-- Greedy: after the iterations, `R` does not match with progress at the position reached. -/
theorem Reps.maximal {m : Nat → Out (V α)} {p n : Nat} {rs : List (V α)} (h : Reps m p n rs) :
    (∃ k e l, m (p + n) = (.fail k e, l)) ∨ (∃ r l, m (p + n) = (.ok 0 r, l)) := by
  induction h with
  | stopFail p n e l hm => exact Or.inl ⟨n, e, l, by simpa using hm⟩
  | stopEmpty p r l hm => exact Or.inr ⟨r, l, by simpa using hm⟩
  | step p n1 r1 l1 n2 rs2 _ _ _ ih => rw [← Nat.add_assoc]; exact ih

/-- `*R`: the result is the list of the results of the greedy iterations. -/
theorem C29_rep0_greedy (c : Cx α) (f : Nat) (g : G) (i n : Nat) (v : V α) (l : Log)
    (h : matchF c (f + 1) (.rep0 g) i = (.ok n v, l)) :
    ∃ rs, v = .list rs ∧ Reps (fun p => matchF c f g p) i n rs := by
  rw [matchF_rep0] at h
  obtain ⟨rs, hrs, rfl⟩ := mapOut_ok _ _ _ _ _ h
  exact ⟨rs, rfl, repLoop_ok _ _ _ _ _ _ _ hrs⟩

/-- `*R` never fails. -/
theorem C29_rep0_never_fails (c : Cx α) (f : Nat) (g : G) (i : Nat) (n : Int) (e : Err) (l : Log) :
    matchF c (f + 1) (.rep0 g) i ≠ (.fail n e, l) := by
  rw [matchF_rep0]
  intro h
  rcases hr : repLoop (fun p => matchF c f g p) c.N f i with ⟨r, l'⟩
  rw [hr] at h
  cases r with
  | ok n' rs => simp [mapOut] at h
  | fail n' e' => exact repLoop_not_fail _ _ _ _ _ _ _ hr
  | abort a => simp [mapOut] at h

/-- `+R`: one mandatory match of `R`, then the greedy iterations. -/
theorem C29_rep1_greedy (c : Cx α) (f : Nat) (g : G) (i n : Nat) (v : V α) (l : Log)
    (h : matchF c (f + 1) (.rep1 g) i = (.ok n v, l)) :
    ∃ n0 r0 l0 n1 rs, matchF c f g i = (.ok n0 r0, l0) ∧
      Reps (fun p => matchF c f g p) (i + n0) n1 rs ∧ n = n0 + n1 ∧ v = .list (r0 :: rs) := by
  rw [matchF_rep1] at h
  rcases hm : matchF c f g i with ⟨r1, l1⟩
  rw [hm] at h
  cases r1 with
  | ok n0 r0 =>
    simp only at h
    rcases hr : repLoop (fun p => matchF c f g p) c.N f (i + n0) with ⟨r2, l2⟩
    rw [hr] at h
    cases r2 with
    | ok n1 rs =>
      simp only [Prod.mk.injEq, Res.ok.injEq] at h
      obtain ⟨⟨rfl, rfl⟩, _⟩ := h
      exact ⟨n0, r0, l1, n1, rs, rfl, repLoop_ok _ _ _ _ _ _ _ hr, rfl, rfl⟩
    | fail n2 e => simp at h
    | abort a => simp at h
  | fail n1 e => simp at h
  | abort a => simp at h

/-- `+R` fails exactly like the first `R`. -/
theorem C29_rep1_fail (c : Cx α) (f : Nat) (g : G) (i : Nat) (n : Int) (e : Err) (l : Log)
    (h : matchF c f g i = (.fail n e, l)) : matchF c (f + 1) (.rep1 g) i = (.fail n e, l) := by
  rw [matchF_rep1, h]

/-! ## option -/

/-- `?R`: the result of `R`, or `nil` (consuming nothing) if `R` does not match. -/
theorem C29_opt_nil (c : Cx α) (f : Nat) (g : G) (i : Nat) :
    (∀ n e l, matchF c f g i = (.fail n e, l) → matchF c (f + 1) (.rep01 g) i = (.ok 0 .nil, l)) ∧
    (∀ n r l, matchF c f g i = (.ok n r, l) → matchF c (f + 1) (.rep01 g) i = (.ok n r, l)) := by
  constructor
  · intro n e l h; rw [matchF_rep01, h]
  · intro n r l h; rw [matchF_rep01, h]

/-! ## list operator -/

theorem reps_pairs (c : Cx α) (f : Nat) (a b : G) : ∀ {p n : Nat} {pairs : List (V α)},
    Reps (fun p => matchF c (f + 1) (.seq [b, a]) p) p n pairs →
    ∀ q ∈ pairs, ∃ s r, q = .list [s, r] := by
  intro p n pairs h
  induction h with
  | stopFail => intro q hq; simp at hq
  | stopEmpty => intro q hq; simp at hq
  | step p n1 r1 l1 n2 rs hm _ _ ih =>
    intro q hq
    simp only [List.mem_cons] at hq
    rcases hq with rfl | hq
    · obtain ⟨rs', rfl, _, hrun'⟩ := (C29_seq_shape c f _ p n1 q).mp ⟨l1, hm⟩
      obtain ⟨_, s, _, _, rs2', _, hrest', _, rfl⟩ := hrun'
      obtain ⟨_, r, _, _, rs3', _, hnil', _, rfl⟩ := hrest'
      simp only [SeqRun] at hnil'
      obtain ⟨_, rfl⟩ := hnil'
      exact ⟨s, r, rfl⟩
    · exact ih q hq

/-- `R1 % R2` (= `R1 *(R2 R1)`): the result is the two-element list
`[r, [[s₁, r₁], [s₂, r₂], …]]`. -/
theorem C29_list_shape (c : Cx α) (f : Nat) (a b : G) (i n : Nat) (v : V α) (l : Log)
    (h : matchF c (f + 3) (G.listOf a b) i = (.ok n v, l)) :
    ∃ r0 pairs, v = .list [r0, .list pairs] ∧ ∀ p ∈ pairs, ∃ s r, p = .list [s, r] := by
  unfold G.listOf at h
  obtain ⟨rs, rfl, hlen, hrun⟩ := (C29_seq_shape c (f + 2) _ i n v).mp ⟨l, h⟩
  obtain ⟨n1, r0, l1, n2, rs2, _, hrest, _, rfl⟩ := hrun
  obtain ⟨n3, r3, l3, n4, rs4, hrep, hnil, _, rfl⟩ := hrest
  simp only [SeqRun] at hnil
  obtain ⟨_, rfl⟩ := hnil
  obtain ⟨pairs, rfl, hreps⟩ := C29_rep0_greedy c (f + 1) _ _ _ _ _ hrep
  exact ⟨r0, pairs, rfl, reps_pairs c f a b hreps⟩

/-! ## adjacency -/

/-- `R1 ++ R2` succeeds only if both parts consume input and the last token of `R1` touches
the first token of `R2` (`End() == Pos`); the result is the pair. -/
theorem C29_adjoin_touch (c : Cx α) (f : Nat) (a b : G) (i n : Nat) (v : V α) (l : Log)
    (h : matchF c (f + 1) (.adjoin a b) i = (.ok n v, l)) :
    ∃ n0 r0 l0 n1 r1 l1 t0 t1, matchF c f a i = (.ok n0 r0, l0) ∧
      matchF c f b (i + n0) = (.ok n1 r1, l1) ∧ n0 > 0 ∧ n1 > 0 ∧ n = n0 + n1 ∧
      v = .list [r0, r1] ∧ c.toks[i + n0 - 1]? = some t0 ∧ c.toks[i + n0]? = some t1 ∧
      t0.endp = t1.pos := by
  rw [matchF_adjoin] at h
  rcases hm : matchF c f a i with ⟨ra, la⟩
  rw [hm] at h
  cases ra with
  | ok n0 r0 =>
    simp only at h
    by_cases hn : n0 = 0
    · simp [hn] at h
    · simp only [hn, if_false] at h
      rcases hb : matchF c f b (i + n0) with ⟨rb, lb⟩
      rw [hb] at h
      cases rb with
      | ok n1 r1 =>
        simp only at h
        by_cases hn1 : n1 = 0
        · simp [hn1] at h
        · simp only [hn1, if_false] at h
          split at h
          · rename_i t0 t1 ht0 ht1
            by_cases ht : t0.endp = t1.pos
            · simp only [ht, ne_eq, not_true_eq_false, if_false, Prod.mk.injEq, Res.ok.injEq] at h
              obtain ⟨⟨rfl, rfl⟩, _⟩ := h
              exact ⟨n0, r0, la, n1, r1, lb, t0, t1, rfl, hb, by omega, by omega, rfl, rfl, ht0, ht1, ht⟩
            · simp [ht] at h
          · simp at h
      | fail n1 e => simp at h
      | abort ab => simp at h
  | fail n0 e => simp at h
  | abort ab => simp at h

/-- Tokens that do not touch make `R1 ++ R2` fail with "not adjoin" at the second part. -/
theorem C29_adjoin_gap (c : Cx α) (f : Nat) (a b : G) (i n0 n1 : Nat) (r0 r1 : V α) (l0 l1 : Log)
    (t0 t1 : Tok) (ha : matchF c f a i = (.ok n0 r0, l0)) (hb : matchF c f b (i + n0) = (.ok n1 r1, l1))
    (hn0 : n0 > 0) (hn1 : n1 > 0) (ht0 : c.toks[i + n0 - 1]? = some t0) (ht1 : c.toks[i + n0]? = some t1)
    (hgap : t0.endp ≠ t1.pos) :
    matchF c (f + 1) (.adjoin a b) i = (.fail n0 (.notAdjoin t1.pos), l0 ++ l1) := by
  rw [matchF_adjoin, ha]
  simp only
  rw [if_neg (by omega), hb]
  simp only
  rw [if_neg (by omega), ht0, ht1]
  simp [hgap]

/-! ## rule references -/

/-- A reference matches what the rule's expression matches; the result goes through the
rule's return procedure; the anonymous "multiple mismatch" error of a choice is replaced by
"expect `<rule name>`" at the current token. -/
theorem C29_var (c : Cx α) (f : Nat) (name : Bytes) (body : G) (i : Nat)
    (hb : c.env.find name = some body) :
    (∀ n r l, matchF c f body i = (.ok n r, l) →
      matchF c (f + 1) (.var name) i =
        (.ok n (match c.procs name with | some p => p r | none => r), l)) ∧
    (∀ n l, matchF c f body i = (.fail n .multi, l) →
      matchF c (f + 1) (.var name) i = (.fail n (.expect name (c.posAt i)), l)) ∧
    (∀ n e l, matchF c f body i = (.fail n e, l) → e ≠ .multi →
      matchF c (f + 1) (.var name) i = (.fail n e, l)) := by
  refine ⟨?_, ?_, ?_⟩
  · intro n r l h; rw [matchF_var, hb]; simp only; rw [h]; rfl
  · intro n l h; rw [matchF_var, hb]; simp only; rw [h]; simp
  · intro n e l h hne; rw [matchF_var, hb]; simp only; rw [h]; simp [hne]

/-! ## consumed count -/

/-- A successful match consumes `n` tokens that exist: `i + n ≤ len(toks)`. -/
theorem C29_consumed_count (c : Cx α) (f : Nat) (g : G) (i n : Nat) (r : V α) (l : Log)
    (hi : i ≤ c.N) (h : matchF c f g i = (.ok n r, l)) : i + n ≤ c.N :=
  matchF_le c f g i n r l hi h

/-- More fuel never changes an outcome that was reached. -/
theorem C29_fuel_stable (c : Cx α) (f k : Nat) (g : G) (i : Nat)
    (h : (matchF c f g i).1 ≠ .abort .fuel) : matchF c (f + k) g i = matchF c f g i :=
  matchF_mono c f g i h k

/-! ## first-set conflicts (`Choices.CheckConflicts`) -/

theorem conflictMe_false {me : FI} {next : List FI} (h : conflictMe me next = false) :
    ∀ x ∈ next, ∀ t, me.accepts t = true → x.accepts t = true →
      (∃ k l, me = .lit k l) ∧ (∃ k, x = .tok k) := by
  intro x hx t hm hxt
  cases me with
  | tok k =>
    simp only [conflictMe, List.any_eq_false] at h
    have := h x hx
    cases x with
    | tok k' =>
      simp only [FI.accepts, beq_iff_eq] at hm hxt
      simp only [beq_iff_eq] at this
      omega
    | lit k' l' =>
      simp only [FI.accepts, beq_iff_eq, Bool.and_eq_true] at hm hxt
      simp only [beq_iff_eq] at this
      omega
  | lit k l =>
    simp only [conflictMe, List.any_eq_false] at h
    have := h x hx
    cases x with
    | tok k' => exact ⟨⟨k, l, rfl⟩, ⟨k', rfl⟩⟩
    | lit k' l' =>
      simp only [FI.accepts, beq_iff_eq, Bool.and_eq_true] at hm hxt
      simp only [Bool.and_eq_true, beq_iff_eq, not_and] at this
      exact absurd (hxt.2.symm.trans hm.2) (by intro hc; exact this (by omega) hc)

/-- `stops[i]` is set only if no token can start both option `i` and a later option —
except that a keyword of option `i` may also belong to a token class (`IDENT`) of a later
option (`hasConflictMatchToken` ignores token classes). -/
theorem C29_conflict_detection_sound : ∀ (firsts : List (List FI)) (i j : Nat) (me nx : List FI),
    (stopsOf firsts)[i]? = some true → i < j → firsts[i]? = some me → firsts[j]? = some nx →
    ∀ m ∈ me, ∀ x ∈ nx, ∀ t, m.accepts t = true → x.accepts t = true →
      (∃ k l, m = .lit k l) ∧ (∃ k, x = .tok k) := by
  intro firsts
  induction firsts with
  | nil => intro i j me nx _ _ h; simp at h
  | cons f0 rest ih =>
    intro i j me nx hs hij hi hj m hm x hx t hmt hxt
    cases i with
    | zero =>
      simp only [stopsOf, List.getElem?_cons_zero, Option.some.injEq, Bool.not_eq_eq_eq_not,
        Bool.not_true, List.any_eq_false] at hs
      simp only [List.getElem?_cons_zero, Option.some.injEq] at hi
      subst hi
      obtain ⟨j', rfl⟩ : ∃ j', j = j' + 1 := ⟨j - 1, by omega⟩
      simp only [List.getElem?_cons_succ] at hj
      have hnx : nx ∈ rest := List.mem_of_getElem? hj
      have hc := hs nx hnx
      simp only [hasConflict, Bool.not_eq_true, List.any_eq_false] at hc
      have := hc m hm
      exact conflictMe_false (by simpa using this) x hx t hmt hxt
    | succ i' =>
      obtain ⟨j', rfl⟩ : ∃ j', j = j' + 1 := ⟨j - 1, by omega⟩
      simp only [stopsOf, List.getElem?_cons_succ] at hs hi hj
      exact ih i' j' me nx hs (by omega) hi hj m hm x hx t hmt hxt

/-- First-set soundness: whenever `g` consumes a token at position `i` — successfully or
before failing — that token is accepted by an element of `g.First(nil)` (grammars as compiled:
no empty sequence; `env'` = the rule table `First` sees, possibly with rules under visit removed). -/
theorem C29_first_sound (c : Cx α) (henv : ∀ x b, c.env.find x = some b → b.wf c.env = true)
    (f : Nat) (g : G) (i : Nat) (hwf : g.wf c.env = true) (hp : Progress (matchF c f g i).1)
    (f' : Nat) (fs : List FI) (me : Bool) (hfs : firstF f' c.env g = .ok fs me) :
    ∃ t, c.toks[i]? = some t ∧ ∃ fi ∈ fs, fi.accepts t = true :=
  matchF_first_sound c henv f g i hwf hp f' c.env fs me (SubEnv.refl _) hfs

/-- Why committing is safe: let `gi`, `gj` be options `i < j` of a choice with first sets `fsi`,
`fsj` (entries `i`, `j` of `firsts`).  If option `i` has `stops[i]` set and consumed input at `p`, the later
option `j` can consume input at `p` only in the keyword-versus-token-class case
(`"if" | IDENT`): otherwise no later option could have matched more than the empty input. -/
theorem C29_commit_sound (c : Cx α) (henv : ∀ x b, c.env.find x = some b → b.wf c.env = true)
    (f f' : Nat) (firsts : List (List FI)) (i j p : Nat) (gi gj : G)
    (fsi fsj : List FI) (mei mej : Bool)
    (hij : i < j)
    (hwi : gi.wf c.env = true) (hwj : gj.wf c.env = true)
    (hfi : firstF f' c.env gi = .ok fsi mei) (hfj : firstF f' c.env gj = .ok fsj mej)
    (hi : firsts[i]? = some fsi) (hj : firsts[j]? = some fsj)
    (hstop : (stopsOf firsts)[i]? = some true)
    (hpi : Progress (matchF c f gi p).1) (hpj : Progress (matchF c f gj p).1) :
    ∃ t, c.toks[p]? = some t ∧ ∃ k l k', FI.lit k l ∈ fsi ∧ (FI.lit k l).accepts t = true ∧
      FI.tok k' ∈ fsj ∧ (FI.tok k').accepts t = true := by
  obtain ⟨t, ht, fi, hfi', hai⟩ := C29_first_sound c henv f gi p hwi hpi f' fsi mei hfi
  obtain ⟨t', ht', fj, hfj', haj⟩ := C29_first_sound c henv f gj p hwj hpj f' fsj mej hfj
  rw [ht] at ht'; cases ht'
  obtain ⟨⟨k, l, rfl⟩, ⟨k', rfl⟩⟩ :=
    C29_conflict_detection_sound firsts i j fsi fsj hstop hij hi hj fi hfi' fj hfj' t hai haj
  exact ⟨t, ht, k, l, k', hfi', hai, hfj', haj⟩

/-! ## the match succeeds or fails (it does not panic) -/

/-- For matcher trees as `tpl/cl` builds them (`stopsLen`: one `stops` entry per option) and
token lists as the scanner yields them (`toksOk`: `STRING` tokens carry their text), no index
expression of any `Match` method goes out of range: the outcome is never a panic. -/
theorem C29_never_panics (c : Cx α) (henv : c.env.stopsLen = true) (htoks : toksOk c.toks = true)
    (f : Nat) (g : G) (hg : g.stopsLen = true) (i : Nat) (hi : i ≤ c.N) :
    (matchF c f g i).1 ≠ .abort .panic :=
  matchF_no_panic c henv htoks f g i hi hg

/-- … in particular for a rule reference at the start of the input (`Compiler.Match`). -/
theorem C29_match_never_panics (c : Cx α) (henv : c.env.stopsLen = true) (htoks : toksOk c.toks = true)
    (f : Nat) (doc : Bytes) : (matchTop c f doc).res ≠ .abort .panic :=
  matchF_no_panic c henv htoks f (.var doc) 0 (Nat.zero_le _) rfl

/-! ## Non-vacuity and the README examples -/
namespace Ex29

def kIDENT : Nat := 4
def kINT : Nat := 5
def kCOMMA : Nat := 44
def bDoc : Bytes := [0x64, 0x6f, 0x63]
def lblINT : Bytes := [0x49, 0x4e, 0x54]
def lblCOMMA : Bytes := [0x2c]
def bA : Bytes := [0x61]

def cxOf (env : Env) (toks : List Tok) : Cx Nat := ⟨env, toks, 100, fun _ => none⟩

/-- `1, 2,3` scanned: INT COMMA INT COMMA INT. -/
def toksList : List Tok :=
  [⟨kINT, [0x31], 1, 2⟩, ⟨kCOMMA, [], 2, 3⟩, ⟨kINT, [0x32], 4, 5⟩, ⟨kCOMMA, [], 5, 6⟩, ⟨kINT, [0x33], 6, 7⟩]

/-- README: `INT % ","` on `1, 2, 3` gives `[1, [[",", 2], [",", 3]]]`. -/
example : (matchF (cxOf [] toksList) 10 (G.listOf (.tok kINT lblINT) (.tok kCOMMA lblCOMMA)) 0).1
    matches .ok 5 (.list [.tok 0, .list [.list [.tok 1, .tok 2], .list [.tok 3, .tok 4]]]) := by decide

/-- No backtracking: `*"a" "a"` on `a a` fails (the repetition takes both tokens), although
giving one back would let the sequence succeed. -/
example : (matchF (cxOf [] [⟨kIDENT, bA, 1, 2⟩, ⟨kIDENT, bA, 3, 4⟩]) 10
    (.seq [.rep0 (.lit kIDENT bA), .lit kIDENT bA]) 0).1 matches .fail 2 (.expect _ 100) := by decide

/-- Adjacency: `INT ++ ","` matches `1,` (touching) but not `2 ,`. -/
example : (matchF (cxOf [] toksList) 10 (.adjoin (.tok kINT lblINT) (.tok kCOMMA lblCOMMA)) 0).1
    matches .ok 2 (.list [.tok 0, .tok 1]) := by decide
example : (matchF (cxOf [] [⟨kINT, [0x32], 4, 5⟩, ⟨kCOMMA, [], 6, 7⟩]) 10
    (.adjoin (.tok kINT lblINT) (.tok kCOMMA lblCOMMA)) 0).1 matches .fail 1 (.notAdjoin 6) := by decide

/-- Hypotheses of `C29_choice_commit` are satisfiable: `("a" INT | "a")` with stops `[true, true]`
on `a a`: the first option consumes `a`, fails on INT and ends the choice. -/
example : (matchF (cxOf [] [⟨kIDENT, bA, 1, 2⟩, ⟨kIDENT, bA, 3, 4⟩]) 10
    (.choice [.seq [.lit kIDENT bA, .tok kINT lblINT], .lit kIDENT bA] [true, true]) 0).1
    matches .fail 1 (.expect _ 3) := by decide
/-- … and with stops `[false, true]` (what `CheckConflicts` computes for it) the second option is tried. -/
example : (matchF (cxOf [] [⟨kIDENT, bA, 1, 2⟩, ⟨kIDENT, bA, 3, 4⟩]) 10
    (.choice [.seq [.lit kIDENT bA, .tok kINT lblINT], .lit kIDENT bA] [false, true]) 0).1
    matches .ok 1 (.tok 0) := by decide
example : stopsOf [[.lit kIDENT bA], [.lit kIDENT bA]] = [false, true] := by decide
example : toksOk toksList = true ∧ (G.choice [.lit kIDENT bA, .lit kIDENT bA] [false, true]).stopsLen = true := by decide
/-- The keyword/class asymmetry of `C29_conflict_detection_sound`: `"a" | IDENT` sets `stops[0]`. -/
example : stopsOf [[.lit kIDENT bA], [.tok kIDENT]] = [true, true] ∧
    stopsOf [[.tok kIDENT], [.lit kIDENT bA]] = [false, true] := by decide

end Ex29

end GopModel.Tpl
