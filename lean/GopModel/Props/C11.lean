/-
C11 — a normal .gox class file behaves like its explicit struct form.

FULL STATEMENT (properties.jsonl): a .gox class file whose var block declares fields and whose
funcs declare methods compiles to a type with exactly those fields and methods (receiver this),
and a program using it behaves like the same program written with an explicit struct and
pointer-receiver methods.

What is proved here is the KERNEL about the *shape of the generated type* on a transcription of
`ClassFieldsDecl`, the field loop of `preloadGopFile` and `preloadFuncDecl`'s receiver rule
(Model/ClassFile.lean): `C11_class_fields_partial`, `C11_class_methods_partial`,
`C11_first_var_block`, `C11_later_var_blocks_are_globals`, and the witnesses
`C11_var_after_func_is_not_fields`, `C11_redeclared_field_reported`.
NOT proved: the behavioural half ("behaves like the explicit form") — it needs the semantics of
the whole compiler and of Go; it is covered only by the differential run of `harness/cmd/c11`
(class-file program vs explicit struct program, both compiled by the real compiler, built, run).
-/
import GopModel.Model.ClassFile
namespace GopModel.ClassFile

def declNames (specs : List Spec) : List Str := (fieldsOf specs).map Field.name

/-- Every embedded spec has a type `parseTypeEmbedName` understands (the parser only produces
`T`, `*T`, `pkg.T`, `*pkg.T` there). -/
def EmbedsOk (specs : List Spec) : Prop := ∀ s ∈ specs, s.names = [] → (embedName s.typ).isSome

theorem isRedecl_fresh {seen : List Str} {n : Str} (h : n ∉ seen) : isRedecl seen n = false := by
  simp [isRedecl, h]

theorem addNames_fresh (typ tag : Str) : ∀ (names : List Str) (flds : List Field) (seen red : List Str),
    (∀ n ∈ names, n ∉ seen) → names.Nodup →
    addNames typ tag names flds seen red =
      ((names.map fun n => (⟨n, typ, false, tag⟩ : Field)).reverse ++ flds, names.reverse ++ seen, red)
  | [], _, _, _, _, _ => by simp [addNames]
  | n :: r, flds, seen, red, hf, hnd => by
    have hn : n ∉ seen := hf n (by simp)
    rw [List.nodup_cons] at hnd
    have hr : ∀ m ∈ r, m ∉ n :: seen := by
      intro m hm hmem
      rcases List.mem_cons.mp hmem with rfl | h
      · exact hnd.1 hm
      · exact hf m (List.mem_cons_of_mem _ hm) h
    simp only [addNames, isRedecl_fresh hn, Bool.false_eq_true, if_false]
    rw [addNames_fresh typ tag r _ _ _ hr hnd.2]
    simp

theorem fieldsOf_cons_names (s : Spec) (r : List Spec) (n : Str) (ns : List Str) (h : s.names = n :: ns) :
    fieldsOf (s :: r) = (s.names.map fun m => (⟨m, s.typ.text, false, tagOf s⟩ : Field)) ++ fieldsOf r := by
  simp [fieldsOf, h]

/-- The field loop, for fresh pairwise distinct names, appends exactly `fieldsOf`. -/
theorem typLoop_spec : ∀ (specs : List Spec) (flds : List Field) (seen red : List Str),
    EmbedsOk specs → (declNames specs).Nodup → (∀ n ∈ declNames specs, n ∉ seen) →
    typLoop specs flds seen red = .ok (flds.reverse ++ fieldsOf specs) red.reverse
  | [], flds, seen, red, _, _, _ => by simp [typLoop, fieldsOf]
  | s :: r, flds, seen, red, hemb, hnd, hfresh => by
    have hembr : EmbedsOk r := fun x hx => hemb x (List.mem_cons_of_mem _ hx)
    cases hnames : s.names with
    | nil =>
      have := hemb s (by simp) hnames
      obtain ⟨n, hn⟩ := Option.isSome_iff_exists.mp this
      have hfo : fieldsOf (s :: r) = ⟨n, s.typ.text, true, tagOf s⟩ :: fieldsOf r := by
        simp [fieldsOf, hnames, hn]
      have hdn : declNames (s :: r) = n :: declNames r := by simp [declNames, hfo]
      rw [hdn] at hnd hfresh
      rw [List.nodup_cons] at hnd
      have hns : n ∉ seen := hfresh n (by simp)
      have hfr : ∀ m ∈ declNames r, m ∉ n :: seen := by
        intro m hm hmem
        rcases List.mem_cons.mp hmem with rfl | h
        · exact hnd.1 hm
        · exact hfresh m (List.mem_cons_of_mem _ hm) h
      simp only [typLoop, hnames, hn, isRedecl_fresh hns, Bool.false_eq_true, if_false]
      rw [typLoop_spec r _ _ _ hembr hnd.2 hfr, hfo]
      simp
    | cons n ns =>
      have hfo := fieldsOf_cons_names s r n ns hnames
      have hdn : declNames (s :: r) = s.names ++ declNames r := by
        simp [declNames, hfo, List.map_map, Function.comp_def]
      rw [hdn, hnames] at hnd hfresh
      have hnd1 : (n :: ns).Nodup := (List.nodup_append.mp hnd).1
      have hnd2 : (declNames r).Nodup := (List.nodup_append.mp hnd).2.1
      have hdisj := (List.nodup_append.mp hnd).2.2
      have hf1 : ∀ m ∈ n :: ns, m ∉ seen := fun m hm => hfresh m (List.mem_append_left _ hm)
      have hf2 : ∀ m ∈ declNames r, m ∉ (n :: ns).reverse ++ seen := by
        intro m hm hmem
        rcases List.mem_append.mp hmem with h | h
        · exact hdisj m (List.mem_reverse.mp h) m hm rfl
        · exact hfresh m (List.mem_append_right _ hm) h
      simp only [typLoop, hnames]
      rw [addNames_fresh _ _ (n :: ns) flds seen red hf1 hnd1]
      simp only []
      rw [typLoop_spec r _ _ _ hembr hnd2 hf2, hfo, hnames]
      simp

/-- **Fields.**  For a class file whose class var block is `specs` (see `C11_first_var_block`
for which block that is) with pairwise distinct field names, the generated struct has exactly
the fields of the explicit struct written from the same block: same names in the same order,
multi-name specs expanded, embedded and pointer-embedded fields preserved (named after the type),
tags kept — and nothing is reported as redeclared.
_partial: types are compared as text; that `toType` resolves them like an explicit struct does is
left to the go/types comparison of the differential run. -/
theorem C11_class_fields_partial (cls : Str) (ds : List Decl) (specs : List Spec)
    (hcf : classFields ds = some specs) (hemb : EmbedsOk specs) (hnd : (declNames specs).Nodup) :
    ∃ t, genType cls ds = .ok t ∧ t.name = cls ∧ t.fields = fieldsOf specs ∧ t.redeclared = [] := by
  have := typLoop_spec specs [] [] [] hemb hnd (by simp)
  simp only [genType, hcf, Option.getD_some, this]
  exact ⟨_, rfl, rfl, by simp, by simp⟩

/-- A class file without a class var block denotes an empty struct. -/
theorem C11_no_var_block (cls : Str) (ds : List Decl) (h : classFields ds = none) :
    ∃ t, genType cls ds = .ok t ∧ t.fields = [] := by
  simp [genType, h, typLoop]

theorem walkDecls_methods (cls : Str) (skip : Option Nat) : ∀ (ds : List Decl) (i : Nat)
    (ms : List Method) (gs : List Str),
    (walkDecls cls skip ds i ms gs).1 = ms.reverse ++ methodsOf cls ds
  | [], _, ms, gs => by simp [walkDecls, methodsOf]
  | d :: r, i, ms, gs => by
    cases d with
    | func f =>
      simp only [walkDecls, methodsOf, walkDecls_methods cls skip r, methodOf]
      cases f.recv <;> simp
    | genVar specs =>
      simp only [walkDecls, methodsOf]
      split <;> simp [walkDecls_methods cls skip r]
    | genImport => simp [walkDecls, methodsOf, walkDecls_methods cls skip r]
    | genConst => simp [walkDecls, methodsOf, walkDecls_methods cls skip r]
    | genType => simp [walkDecls, methodsOf, walkDecls_methods cls skip r]

theorem mem_methodsOf (cls : Str) (f : FuncDecl) (hr : f.recv = none) : ∀ (ds : List Decl),
    Decl.func f ∈ ds → (⟨f.name, thisName, cls, true⟩ : Method) ∈ methodsOf cls ds
  | [], h => by simp at h
  | d :: r, h => by
    rcases List.mem_cons.mp h with rfl | h'
    · simp [methodsOf, hr]
    · have := mem_methodsOf cls f hr r h'
      cases d with
      | func g => exact List.mem_cons_of_mem _ this
      | genVar _ => simpa [methodsOf] using this
      | genImport => simpa [methodsOf] using this
      | genConst => simpa [methodsOf] using this
      | genType => simpa [methodsOf] using this

theorem genType_ok (cls : Str) (ds : List Decl) (t : GenType) (h : genType cls ds = .ok t) :
    t.methods = (walkDecls cls (classFieldsIdx ds 0) ds 0 [] []).1 ∧
    t.globals = (walkDecls cls (classFieldsIdx ds 0) ds 0 [] []).2 := by
  simp only [genType] at h
  split at h
  · cases h
  · cases h; exact ⟨rfl, rfl⟩

/-- **Methods.**  The methods the file declares are exactly its functions, in order; every
function written without a receiver is a method of the class with the pointer receiver
`this *T`; functions with an explicit receiver are unchanged.
_partial: bodies are not modelled (bare field names resolving to `this.x` is tested, not proved). -/
theorem C11_class_methods_partial (cls : Str) (ds : List Decl) (t : GenType)
    (h : genType cls ds = .ok t) :
    t.methods = methodsOf cls ds ∧
    ∀ f, Decl.func f ∈ ds → f.recv = none → (⟨f.name, thisName, cls, true⟩ : Method) ∈ t.methods := by
  have hm : t.methods = methodsOf cls ds := by
    rw [(genType_ok cls ds t h).1, walkDecls_methods]; simp
  refine ⟨hm, ?_⟩
  rw [hm]
  intro f hf hr
  exact mem_methodsOf cls f hr ds hf

def Decl.isLeadingGen : Decl → Bool
  | .genImport | .genConst | .genType => true
  | _ => false

theorem classFieldsIdx_spec : ∀ (ds : List Decl) (i k : Nat), classFieldsIdx ds i = some k →
    ∃ j : Nat, k = i + j ∧ (∃ specs, ds[j]? = some (Decl.genVar specs)) ∧
      ∀ m : Nat, m < j → ∃ d : Decl, ds[m]? = some d ∧ d.isLeadingGen = true
  | [], _, _, h => by simp [classFieldsIdx] at h
  | d :: r, i, k, h => by
    cases d with
    | genVar specs =>
      simp only [classFieldsIdx, Option.some.injEq] at h
      exact ⟨0, by omega, ⟨specs, rfl⟩, by intro m hm; omega⟩
    | func f => simp [classFieldsIdx] at h
    | genImport | genConst | genType =>
      simp only [classFieldsIdx] at h
      obtain ⟨j, hk, hv, hpre⟩ := classFieldsIdx_spec r (i + 1) k h
      refine ⟨j + 1, by omega, by simpa using hv, ?_⟩
      intro m hm
      cases m with
      | zero => exact ⟨_, rfl, rfl⟩
      | succ m => simpa using hpre m (by omega)

/-- **Which block.**  The class fields are the FIRST `var` declaration, and only if nothing but
`import`/`const`/`type` declarations precede it. -/
theorem C11_first_var_block (ds : List Decl) (specs : List Spec) (h : classFields ds = some specs) :
    ∃ j : Nat, ds[j]? = some (Decl.genVar specs) ∧
      ∀ m : Nat, m < j → ∃ d : Decl, ds[m]? = some d ∧ d.isLeadingGen = true := by
  unfold classFields at h
  split at h
  · cases h
  · rename_i i hi
    obtain ⟨j, hk, _, hpre⟩ := classFieldsIdx_spec ds 0 i hi
    have : i = j := by omega
    subst this
    split at h
    · rename_i s hs; cases h; exact ⟨i, hs, hpre⟩
    · cases h

def globalsAt (skip : Option Nat) (p : Decl × Nat) : List Str :=
  match p.1 with
  | Decl.genVar specs => if skip = some p.2 then [] else specs.flatMap Spec.names
  | _ => []

theorem walkDecls_globals (cls : Str) (skip : Option Nat) : ∀ (ds : List Decl) (i : Nat)
    (ms : List Method) (gs : List Str),
    (walkDecls cls skip ds i ms gs).2 = gs.reverse ++ (ds.zipIdx i).flatMap (globalsAt skip)
  | [], _, ms, gs => by simp [walkDecls]
  | d :: r, i, ms, gs => by
    cases d with
    | func f => simp [walkDecls, walkDecls_globals cls skip r, List.zipIdx_cons, globalsAt]
    | genVar specs =>
      simp only [walkDecls, List.zipIdx_cons, List.flatMap_cons, globalsAt]
      split <;> simp [walkDecls_globals cls skip r]
    | genImport => simp [walkDecls, walkDecls_globals cls skip r, List.zipIdx_cons, globalsAt]
    | genConst => simp [walkDecls, walkDecls_globals cls skip r, List.zipIdx_cons, globalsAt]
    | genType => simp [walkDecls, walkDecls_globals cls skip r, List.zipIdx_cons, globalsAt]

/-- Every other `var` block of the file declares package-level variables, not fields:
the globals are the names of all var blocks except the class var block, in order. -/
theorem C11_later_var_blocks_are_globals (cls : Str) (ds : List Decl) (t : GenType)
    (h : genType cls ds = .ok t) :
    t.globals = (ds.zipIdx 0).flatMap (globalsAt (classFieldsIdx ds 0)) := by
  rw [(genType_ok cls ds t h).2, walkDecls_globals]; simp

def cs (x : String) : Str := x.toList

/-- A `var` block that follows a function is NOT the class var block (the scan of
`ClassFieldsDecl` stops at the first non-GenDecl): the struct is empty and `x` is a global. -/
theorem C11_var_after_func_is_not_fields :
    genType (cs "C") [.func ⟨cs "m", none⟩, .genVar [⟨[cs "x"], .ident (cs "int"), none⟩]] =
      .ok { name := cs "C", fields := [], redeclared := [],
            methods := [⟨cs "m", thisName, cs "C", true⟩], globals := [cs "x"] } := by
  decide

/-- A repeated field name is skipped and reported ("x redeclared"): compilation fails. -/
theorem C11_redeclared_field_reported :
    genType (cs "C") [.genVar [⟨[cs "x", cs "y"], .ident (cs "int"), none⟩, ⟨[cs "x"], .ident (cs "string"), none⟩]] =
      .ok { name := cs "C", fields := [⟨cs "x", cs "int", false, []⟩, ⟨cs "y", cs "int", false, []⟩],
            redeclared := [cs "x"], methods := [], globals := [] } := by
  decide

/-! Non-vacuity: a class with multi-name, embedded, pointer-embedded (package type) and tagged fields. -/
def exDecls : List Decl :=
  [.genImport, .genConst, .genType,
   .genVar [⟨[cs "w", cs "h"], .ident (cs "int"), none⟩,
            ⟨[cs "name"], .ident (cs "string"), some (cs "json:\"name\"")⟩,
            ⟨[], .ident (cs "Base"), none⟩,
            ⟨[], .star (.sel (cs "strings") (cs "Reader")), none⟩,
            ⟨[cs "tags"], .other (cs "[]string"), none⟩],
   .genVar [⟨[cs "later"], .ident (cs "int"), none⟩],
   .func ⟨cs "area", none⟩, .func ⟨cs "Id", some (cs "b", cs "Base", true)⟩]

example : classFields exDecls = some
    [⟨[cs "w", cs "h"], .ident (cs "int"), none⟩,
     ⟨[cs "name"], .ident (cs "string"), some (cs "json:\"name\"")⟩,
     ⟨[], .ident (cs "Base"), none⟩,
     ⟨[], .star (.sel (cs "strings") (cs "Reader")), none⟩,
     ⟨[cs "tags"], .other (cs "[]string"), none⟩] := by decide

example : genType (cs "Rect") exDecls = .ok
    { name := cs "Rect",
      fields := [⟨cs "w", cs "int", false, []⟩, ⟨cs "h", cs "int", false, []⟩,
                 ⟨cs "name", cs "string", false, cs "json:\"name\""⟩,
                 ⟨cs "Base", cs "Base", true, []⟩, ⟨cs "Reader", cs "*strings.Reader", true, []⟩,
                 ⟨cs "tags", cs "[]string", false, []⟩],
      redeclared := [],
      methods := [⟨cs "area", thisName, cs "Rect", true⟩, ⟨cs "Id", cs "b", cs "Base", true⟩],
      globals := [cs "later"] } := by decide

end GopModel.ClassFile
