/-
C16 — the XGo scanner agrees with go/scanner on Go lexemes.

Statement (full strength), over the scanner model M1 with dialects `xgo` (scanner/scanner.go)
and `go` (go/scanner of the toolchain, Go 1.23):

    theorem xgo_eq_go (U : UCls) (src : Array UInt8) (comments noSemis : Bool) :
        goLexemesOnly U comments noSemis src = true →
        agree16 (scan ⟨.xgo, comments, noSemis, U⟩ src) (scan ⟨.go, comments, noSemis, U⟩ src) = true

(`agree16`: both runs finish; same tokens — offset, kind, literal, including inserted semicolons
— and the same error-handler calls — offset and message — in the same order; `goLexemesOnly`:
Model/ScanDomain.lean).

PARTIAL.  What is proved here, for the tables REGENERATED on every run:
  * `C16_token_tables_embed`, `C16_keywords_equal`: every token of go/token has the same value and
    spelling in the XGo token package, the keyword tables coincide — so "same kind" is equality
    of the numeric token values;
  * `C16_switch_agrees`: the operator decision tries of the two `Scan` functions are identical
    except for the first bytes `- < = ! ( ) ? $ #`, where XGo adds `->`, `<>`, `=>`, the
    semicolon-inserting `!`, the parenthesis counter, `?`, `$`; and `C16_switch_differences`
    pins each of those differences: the only additional leaves are the XGo-only tokens, and the
    only flag difference on a Go token is `insertSemi` after `!`;
  * the three by-design deviations really are deviations (`C16_bang_newline_differs`,
    `C16_ellipsis_newline_differs`, `C16_semicolon_order_differs`: concrete witnesses, also
    replayed on the real scanners by the harness) and are outside the domain;
  * `C16_domain_examples`: the domain is not empty / not trivial (it contains sources with
    comments, all literal kinds, errors).
The general statement `xgo_eq_go` is NOT proved in Lean; it is checked by the differential run
(harness/cmd/c16): the model's domain decision and the model's `agree16` are compared with the
real go/scanner and the real XGo scanner on every generated input, and every in-domain input
on which the real scanners differ is reported as a violation.
-/
import GopModel.Model.ScanDomain
namespace GopModel.Scan.C16
open GopModel.Generated GopModel.Scan

def noU : UCls := { isLetter := fun _ => false, isDigit := fun _ => false }
def cfg (d : Dialect) (comments : Bool) : Cfg := { d := d, comments := comments, noSemis := false, U := noU }

/-- every token of go/token has the same numeric value and spelling in the XGo token package -/
theorem C16_token_tables_embed :
    ∀ e ∈ Tokens.Go.tokenBytes, Tokens.XGo.tokenBytes.lookup e.1 = some e.2 := by
  have h : (Tokens.Go.tokenBytes.all fun e => Tokens.XGo.tokenBytes.lookup e.1 == some e.2) = true := by
    decide +kernel
  intro e he
  simpa using (List.all_eq_true.mp h) e he

/-- the keyword tables (spelling ↦ token) of the two packages are equal, and the keywords
after which a newline becomes a semicolon as well -/
theorem C16_keywords_equal : xgoCodes.keywords = goCodes.keywords ∧ xgoCodes.semiKw = goCodes.semiKw := by
  decide +kernel

/-- the hand-coded token values agree -/
theorem C16_codes_equal :
    [xgoCodes.ILLEGAL, xgoCodes.EOF, xgoCodes.COMMENT, xgoCodes.IDENT, xgoCodes.INT, xgoCodes.FLOAT, xgoCodes.IMAG,
     xgoCodes.CHAR, xgoCodes.STRING, xgoCodes.SEMICOLON, xgoCodes.PERIOD, xgoCodes.ELLIPSIS] =
    [goCodes.ILLEGAL, goCodes.EOF, goCodes.COMMENT, goCodes.IDENT, goCodes.INT, goCodes.FLOAT, goCodes.IMAG,
     goCodes.CHAR, goCodes.STRING, goCodes.SEMICOLON, goCodes.PERIOD, goCodes.ELLIPSIS] := by
  decide

/-- first bytes whose case differs between the two operator switches -/
def differingFirstBytes : List Nat := [0x2D, 0x3C, 0x3D, 0x21, 0x28, 0x29]

/-- Outside `- < = ! ( )` the decision tries of go/scanner and the XGo scanner are identical. -/
theorem C16_switch_agrees :
    ∀ e ∈ ScanSwitch.goOps, e.1 ∉ differingFirstBytes → ScanSwitch.xgoOps.lookup e.1 = some e.2 := by
  have h : (ScanSwitch.goOps.all fun e =>
      differingFirstBytes.contains e.1 || ScanSwitch.xgoOps.lookup e.1 == some e.2) = true := by decide +kernel
  intro e he hn
  have := (List.all_eq_true.mp h) e he
  simp only [Bool.or_eq_true, beq_iff_eq] at this
  rcases this with h1 | h1
  · exact absurd (List.contains_iff_mem.mp h1) hn
  · exact h1

/-- erase what XGo adds to a trie: the parenthesis counter, and the branches for `>` after
`-`, `=`, `<` -/
def eraseParen : Trie → Trie
  | .leaf t s _ => .leaf t s 0
  | .test c y n => .test c (eraseParen y) (eraseParen n)

/-- The six differing cases, pinned: `(` `)` differ only by the parenthesis counter; `-`, `<`,
`=` differ only by the additional branch on `>` (`->`, `<>`, `=>`); `!` differs only by
`insertSemi` after `!`. -/
theorem C16_switch_differences :
    (ScanSwitch.xgoOps.lookup 0x28).map eraseParen = ScanSwitch.goOps.lookup 0x28 ∧
    (ScanSwitch.xgoOps.lookup 0x29).map eraseParen = ScanSwitch.goOps.lookup 0x29 ∧
    (∃ t, ScanSwitch.goOps.lookup 0x2D = some t ∧
        ScanSwitch.xgoOps.lookup 0x2D = some (.test 0x3E (.leaf Tokens.XGo.SRARROW false 0) t)) ∧
    (∃ t, ScanSwitch.goOps.lookup 0x3C = some (.test 0x2D (.leaf Tokens.Go.ARROW false 0) t) ∧
        ScanSwitch.xgoOps.lookup 0x3C = some (.test 0x2D (.leaf Tokens.XGo.ARROW false 0)
          (.test 0x3E (.leaf Tokens.XGo.BIDIARROW false 0) t))) ∧
    (ScanSwitch.goOps.lookup 0x3D = some (.test 0x3D (.leaf Tokens.Go.EQL false 0) (.leaf Tokens.Go.ASSIGN false 0)) ∧
        ScanSwitch.xgoOps.lookup 0x3D = some (.test 0x3D (.leaf Tokens.XGo.EQL false 0)
          (.test 0x3E (.leaf Tokens.XGo.DRARROW false 0) (.leaf Tokens.XGo.ASSIGN false 0)))) ∧
    (ScanSwitch.goOps.lookup 0x21 = some (.test 0x3D (.leaf Tokens.Go.NEQ false 0) (.leaf Tokens.Go.NOT false 0)) ∧
        ScanSwitch.xgoOps.lookup 0x21 = some (.test 0x3D (.leaf Tokens.XGo.NEQ false 0) (.leaf Tokens.XGo.NOT true 0))) := by
  refine ⟨by decide +kernel, by decide +kernel, ⟨_, rfl, by decide +kernel⟩, ⟨_, rfl, by decide +kernel⟩,
    ⟨by decide +kernel, by decide +kernel⟩, ⟨by decide +kernel, by decide +kernel⟩⟩

/-- the cases only the XGo switch has: `?`, `$` (and `#`, handled by hand) -/
theorem C16_switch_xgo_only :
    (ScanSwitch.xgoOps.filter fun e => (ScanSwitch.goOps.lookup e.1).isNone).map (·.1) = [0x3F, 0x24] := by
  decide +kernel

/-! ## The by-design deviations are real (witnesses; replayed on the real scanners by harness/cmd/c16) -/

def srcBang : Array UInt8 := #[0x78, 0x21, 0x0A, 0x79]                 -- "x!\ny"
def srcEllipsis : Array UInt8 := #[0x61, 0x2E, 0x2E, 0x2E, 0x0A]       -- "a...\n"
def srcSemiOrder : Array UInt8 := #[0x78, 0x20, 0x2F, 0x2F, 0x20, 0x63, 0x0A, 0x79]   -- "x // c\ny"

/-- `x!⏎y`: the XGo scanner inserts a semicolon after `!`, go/scanner does not; the input is
outside the domain. -/
theorem C16_bang_newline_differs :
    agree16 (scan (cfg .xgo true) srcBang) (scan (cfg .go true) srcBang) = false ∧
    goLexemesOnly noU true false srcBang = false := by decide +kernel

theorem C16_ellipsis_newline_differs :
    agree16 (scan (cfg .xgo true) srcEllipsis) (scan (cfg .go true) srcEllipsis) = false ∧
    goLexemesOnly noU true false srcEllipsis = false := by decide +kernel

/-- `x // c⏎y`: XGo returns `;` before the comment (at the comment), go/scanner 1.23 after it
(at the newline) — with comments on and, by offset, also with comments off -/
theorem C16_semicolon_order_differs :
    agree16 (scan (cfg .xgo true) srcSemiOrder) (scan (cfg .go true) srcSemiOrder) = false ∧
    agree16 (scan (cfg .xgo false) srcSemiOrder) (scan (cfg .go false) srcSemiOrder) = false ∧
    goLexemesOnly noU true false srcSemiOrder = false ∧ goLexemesOnly noU false false srcSemiOrder = false := by decide +kernel

/-! ## The domain is not trivial: members with comments, literals of every kind, errors -/

/-- `x := 0x1F + /* c */ 1.5e3i * 'a' + // t` + newline + `"s\q" != !y` -/
def srcIn : Array UInt8 :=
  #[0x78, 0x20, 0x3A, 0x3D, 0x20, 0x30, 0x78, 0x31, 0x46, 0x20, 0x2B, 0x20, 0x2F, 0x2A, 0x20, 0x63, 0x20, 0x2A, 0x2F, 0x20,
    0x31, 0x2E, 0x35, 0x65, 0x33, 0x69, 0x20, 0x2A, 0x20, 0x27, 0x61, 0x27, 0x20, 0x2B, 0x20, 0x2F, 0x2F, 0x20, 0x74, 0x0A,
    0x22, 0x73, 0x5C, 0x71, 0x22, 0x20, 0x21, 0x3D, 0x20, 0x21, 0x79]

theorem C16_domain_examples :
    goLexemesOnly noU true false srcIn = true ∧ goLexemesOnly noU false false srcIn = true ∧
    agree16 (scan (cfg .xgo true) srcIn) (scan (cfg .go true) srcIn) = true ∧
    agree16 (scan (cfg .xgo false) srcIn) (scan (cfg .go false) srcIn) = true ∧
    (scan (cfg .go true) srcIn).errs ≠ [] ∧ 10 ≤ (scan (cfg .go true) srcIn).toks.length := by
  decide +kernel

end GopModel.Scan.C16
