/-
C16 — the XGo scanner agrees with go/scanner on Go lexemes.

Over the scanner model M1 with dialects `xgo` (scanner/scanner.go) and `go` (go/scanner of the
toolchain, Go 1.23), FULL on the decidable domain `goLexemesOnly` (Model/ScanDomain.lean):

    theorem C16_xgo_eq_go : goLexemesOnly U comments noSemis src = true →
        scan ⟨.xgo, comments, noSemis, U⟩ src = scan ⟨.go, comments, noSemis, U⟩ src

for every byte string `src`, every classification `U` of non-ASCII letters/digits and every
scanning mode: the two runs return the same tokens (offset, end, numeric kind, literal — inserted
semicolons included), the same error-handler calls (offset and message) in the same order, and
the same status; `C16_agree` restates it with `agree16`, `C16_token_tables_embed` shows that equal
numeric kinds are the same tokens of the two token packages.

The domain is evaluated on the go model's own run in the compared mode (`goRunOK`): every pass
through `Scan` must return a token that is not ILLEGAL, not a number directly followed by a
letter (imaginary: letter or digit), not `c`/`C`/`py` directly followed by `"`, not `-`/`=`/`<`
directly followed by `>`, not `!`/`...` followed (after blanks) by a line end or a comment; and no
comment may begin while a semicolon is pending.  The last three exclusions are the by-design /
inherited deviations (known findings), each shown to be a real difference by a witness below.

Proof: `Lemmas/ScanCongr.lean` (no sub-scanner reads or writes `nParen`/`insertSemi`),
`Lemmas/ScanC16a…e.lean` (relation `R16` between the two states — equal up to `nParen`, and up to
`insertSemi` right after `!`/`...` when no line end or comment follows; one pass through `Scan`
preserves it and returns equal tokens: `step16`; the loops run in lockstep: `lockstep16`), on top
of C15's invariants.  The operator switches are compared through the regenerated tries
(`switch_agrees16`, `switch_explicit16`).
-/
import GopModel.Lemmas.ScanC16e
import GopModel.Lemmas.ScanSpecials
namespace GopModel.Scan.C16
open GopModel.Generated GopModel.Scan

def noU : UCls := { isLetter := fun _ => false, isDigit := fun _ => false }
def cfg (d : Dialect) (comments : Bool) : Cfg := { d := d, comments := comments, noSemis := false, U := noU }

/-- **C16** (on the model, FULL on the domain): for every source in `goLexemesOnly` the XGo scanner
and go/scanner return the same result — tokens with offsets, ends, kinds and literals including
inserted semicolons, error-handler calls with offsets and messages in order, status. -/
theorem C16_xgo_eq_go (U : UCls) (comments noSemis : Bool) (src : Array UInt8)
    (h : goLexemesOnly U comments noSemis src = true) :
    scan { d := .xgo, comments := comments, noSemis := noSemis, U := U } src =
      scan { d := .go, comments := comments, noSemis := noSemis, U := U } src :=
  scan_xgo_eq_go U comments noSemis src h

/-- the same with the comparison the harness evaluates on the real scanners; both runs finish -/
theorem C16_agree (U : UCls) (comments noSemis : Bool) (src : Array UInt8)
    (h : goLexemesOnly U comments noSemis src = true) :
    agree16 (scan { d := .xgo, comments := comments, noSemis := noSemis, U := U } src)
      (scan { d := .go, comments := comments, noSemis := noSemis, U := U } src) = true := by
  have he := C16_xgo_eq_go U comments noSemis src h
  have hd := scan_done { d := .xgo, comments := comments, noSemis := noSemis, U := U } (by simp) src
  rw [← he]
  unfold agree16
  simp [hd]

/-- every token of go/token has the same numeric value and spelling in the XGo token package -/
theorem C16_token_tables_embed :
    ∀ e ∈ Tokens.Go.tokenBytes, Tokens.XGo.tokenBytes.lookup e.1 = some e.2 := by
  have h : (Tokens.Go.tokenBytes.all fun e => Tokens.XGo.tokenBytes.lookup e.1 == some e.2) = true := by
    decide +kernel
  intro e he
  simpa using (List.all_eq_true.mp h) e he

/-- the keyword tables (spelling ↦ token) of the two packages are equal, and the keywords
after which a newline becomes a semicolon as well -/
theorem C16_keywords_equal : xgoCodes.keywords = goCodes.keywords ∧ xgoCodes.semiKw = goCodes.semiKw := by
  decide +kernel

/-- the hand-coded token values agree -/
theorem C16_codes_equal :
    [xgoCodes.ILLEGAL, xgoCodes.EOF, xgoCodes.COMMENT, xgoCodes.IDENT, xgoCodes.INT, xgoCodes.FLOAT, xgoCodes.IMAG,
     xgoCodes.CHAR, xgoCodes.STRING, xgoCodes.SEMICOLON, xgoCodes.PERIOD, xgoCodes.ELLIPSIS] =
    [goCodes.ILLEGAL, goCodes.EOF, goCodes.COMMENT, goCodes.IDENT, goCodes.INT, goCodes.FLOAT, goCodes.IMAG,
     goCodes.CHAR, goCodes.STRING, goCodes.SEMICOLON, goCodes.PERIOD, goCodes.ELLIPSIS] := by
  decide

/-- first bytes whose case differs between the two operator switches -/
def differingFirstBytes : List Nat := [0x2D, 0x3C, 0x3D, 0x21, 0x28, 0x29]

/-- Outside `- < = ! ( )` the decision tries of go/scanner and the XGo scanner are identical. -/
theorem C16_switch_agrees :
    ∀ e ∈ ScanSwitch.goOps, e.1 ∉ differingFirstBytes → ScanSwitch.xgoOps.lookup e.1 = some e.2 := by
  have h : (ScanSwitch.goOps.all fun e =>
      differingFirstBytes.contains e.1 || ScanSwitch.xgoOps.lookup e.1 == some e.2) = true := by decide +kernel
  intro e he hn
  have := (List.all_eq_true.mp h) e he
  simp only [Bool.or_eq_true, beq_iff_eq] at this
  rcases this with h1 | h1
  · exact absurd (List.contains_iff_mem.mp h1) hn
  · exact h1

/-- erase what XGo adds to a trie: the parenthesis counter, and the branches for `>` after
`-`, `=`, `<` -/
def eraseParen : Trie → Trie
  | .leaf t s _ => .leaf t s 0
  | .test c y n => .test c (eraseParen y) (eraseParen n)

/-- The six differing cases, pinned: `(` `)` differ only by the parenthesis counter; `-`, `<`,
`=` differ only by the additional branch on `>` (`->`, `<>`, `=>`); `!` differs only by
`insertSemi` after `!`. -/
theorem C16_switch_differences :
    (ScanSwitch.xgoOps.lookup 0x28).map eraseParen = ScanSwitch.goOps.lookup 0x28 ∧
    (ScanSwitch.xgoOps.lookup 0x29).map eraseParen = ScanSwitch.goOps.lookup 0x29 ∧
    (∃ t, ScanSwitch.goOps.lookup 0x2D = some t ∧
        ScanSwitch.xgoOps.lookup 0x2D = some (.test 0x3E (.leaf Tokens.XGo.SRARROW false 0) t)) ∧
    (∃ t, ScanSwitch.goOps.lookup 0x3C = some (.test 0x2D (.leaf Tokens.Go.ARROW false 0) t) ∧
        ScanSwitch.xgoOps.lookup 0x3C = some (.test 0x2D (.leaf Tokens.XGo.ARROW false 0)
          (.test 0x3E (.leaf Tokens.XGo.BIDIARROW false 0) t))) ∧
    (ScanSwitch.goOps.lookup 0x3D = some (.test 0x3D (.leaf Tokens.Go.EQL false 0) (.leaf Tokens.Go.ASSIGN false 0)) ∧
        ScanSwitch.xgoOps.lookup 0x3D = some (.test 0x3D (.leaf Tokens.XGo.EQL false 0)
          (.test 0x3E (.leaf Tokens.XGo.DRARROW false 0) (.leaf Tokens.XGo.ASSIGN false 0)))) ∧
    (ScanSwitch.goOps.lookup 0x21 = some (.test 0x3D (.leaf Tokens.Go.NEQ false 0) (.leaf Tokens.Go.NOT false 0)) ∧
        ScanSwitch.xgoOps.lookup 0x21 = some (.test 0x3D (.leaf Tokens.XGo.NEQ false 0) (.leaf Tokens.XGo.NOT true 0))) := by
  refine ⟨by decide +kernel, by decide +kernel, ⟨_, rfl, by decide +kernel⟩, ⟨_, rfl, by decide +kernel⟩,
    ⟨by decide +kernel, by decide +kernel⟩, ⟨by decide +kernel, by decide +kernel⟩⟩

/-- the cases only the XGo switch has: `?`, `$` (and `#`, handled by hand) -/
theorem C16_switch_xgo_only :
    (ScanSwitch.xgoOps.filter fun e => (ScanSwitch.goOps.lookup e.1).isNone).map (·.1) = [0x3F, 0x24] := by
  decide +kernel

/-! ## The by-design deviations are real (witnesses; replayed on the real scanners by harness/cmd/c16) -/

def srcBang : Array UInt8 := #[0x78, 0x21, 0x0A, 0x79]                 -- "x!\ny"
def srcEllipsis : Array UInt8 := #[0x61, 0x2E, 0x2E, 0x2E, 0x0A]       -- "a...\n"
def srcSemiOrder : Array UInt8 := #[0x78, 0x20, 0x2F, 0x2F, 0x20, 0x63, 0x0A, 0x79]   -- "x // c\ny"

/-- `x!⏎y`: the XGo scanner inserts a semicolon after `!`, go/scanner does not; the input is
outside the domain. -/
theorem C16_bang_newline_differs :
    agree16 (scan (cfg .xgo true) srcBang) (scan (cfg .go true) srcBang) = false ∧
    goLexemesOnly noU true false srcBang = false := by decide +kernel

theorem C16_ellipsis_newline_differs :
    agree16 (scan (cfg .xgo true) srcEllipsis) (scan (cfg .go true) srcEllipsis) = false ∧
    goLexemesOnly noU true false srcEllipsis = false := by decide +kernel

/-- `x // c⏎y`: XGo returns `;` before the comment (at the comment), go/scanner 1.23 after it
(at the newline) — with comments on and, by offset, also with comments off -/
theorem C16_semicolon_order_differs :
    agree16 (scan (cfg .xgo true) srcSemiOrder) (scan (cfg .go true) srcSemiOrder) = false ∧
    agree16 (scan (cfg .xgo false) srcSemiOrder) (scan (cfg .go false) srcSemiOrder) = false ∧
    goLexemesOnly noU true false srcSemiOrder = false ∧ goLexemesOnly noU false false srcSemiOrder = false := by decide +kernel

/-- a comment behind an operand, no line end behind it, with a NUL inside: the XGo scanner reads
the comment twice (look-ahead of `findLineEnd`, then `scanComment`) and reports the NUL twice -/
def srcLookahead : Array UInt8 := #[0x78, 0x20, 0x2F, 0x2A, 0x00, 0x2A, 0x2F, 0x20, 0x79]   -- "x /*\0*/ y"

theorem C16_lookahead_error_twice :
    ((scan (cfg .xgo true) srcLookahead).toks == (scan (cfg .go true) srcLookahead).toks) = true ∧
    (scan (cfg .xgo true) srcLookahead).errs.length = 2 ∧ (scan (cfg .go true) srcLookahead).errs.length = 1 ∧
    goLexemesOnly noU true false srcLookahead = false := by decide +kernel

/-! ## The domain is not trivial: members with comments, literals of every kind, errors -/

/-- `x := 0x1F + /* c */ 1.5e3i * 'a' + // t` + newline + `"s\q" != !y` -/
def srcIn : Array UInt8 :=
  #[0x78, 0x20, 0x3A, 0x3D, 0x20, 0x30, 0x78, 0x31, 0x46, 0x20, 0x2B, 0x20, 0x2F, 0x2A, 0x20, 0x63, 0x20, 0x2A, 0x2F, 0x20,
    0x31, 0x2E, 0x35, 0x65, 0x33, 0x69, 0x20, 0x2A, 0x20, 0x27, 0x61, 0x27, 0x20, 0x2B, 0x20, 0x2F, 0x2F, 0x20, 0x74, 0x0A,
    0x22, 0x73, 0x5C, 0x71, 0x22, 0x20, 0x21, 0x3D, 0x20, 0x21, 0x79]

theorem C16_domain_examples :
    goLexemesOnly noU true false srcIn = true ∧ goLexemesOnly noU false false srcIn = true ∧
    agree16 (scan (cfg .xgo true) srcIn) (scan (cfg .go true) srcIn) = true ∧
    agree16 (scan (cfg .xgo false) srcIn) (scan (cfg .go false) srcIn) = true ∧
    (scan (cfg .go true) srcIn).errs ≠ [] ∧ 10 ≤ (scan (cfg .go true) srcIn).toks.length := by
  decide +kernel

end GopModel.Scan.C16
