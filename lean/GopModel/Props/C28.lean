/-
C28 — grammar matching always terminates.

Model: `GopModel.Tpl.matchF` (Model/TplMatch.lean), the fuel-structured transcription of every
`Match` method of tpl/matcher/match.go, and `checkAll`, the transcription of the checks at the end
of `cl.NewEx` (conflict check of every choice, then `First` of every rule, both of which raise
`RecursiveError` on left recursion).  `Res.abort .fuel` is the model's "does not return".

Full statement (proved, for the tree with the two `fix:` commits — zero-progress break in
`gRepeat0/gRepeat1`, left-recursion check of every rule):
  for every rule table that passes `checkAll` (i.e. `cl.NewEx` returns no error) and has the shape
  `cl.compileExpr` produces (`Env.wf`: no empty sequence, every referenced variable is a rule),
  every token list, every start position and every matcher of the grammar,
  `matchF` returns within the explicit fuel `matchBound env (len toks)`;
  hence `Compiler.Match`, `Parse`, `ParseExpr` return.
-/
import GopModel.Lemmas.TplTerm
namespace GopModel.Tpl

variable {α : Type}

theorem find_mem {env : Env} {x : Bytes} {b : G} (h : env.find x = some b) : (x, b) ∈ env := by
  induction env with
  | nil => simp [Env.find, List.lookup] at h
  | cons e rest ih =>
    rcases e with ⟨k, v⟩
    simp only [Env.find, List.lookup] at h
    split at h
    · rename_i heq
      have hk : x = k := by simpa using heq
      simp only [Option.some.injEq] at h
      subst hk; subst h
      simp
    · simp only [List.mem_cons]
      exact Or.inr (ih h)

theorem checkRules_ok {env : Env} : ∀ {l : List (Bytes × G)}, checkRules env l = .ok →
    ∀ x b, (x, b) ∈ l → FirstOk env env.firstFuel (.var x) := by
  intro l
  induction l with
  | nil => intro _ x b h; simp at h
  | cons e rest ih =>
    intro hchk x b hmem
    rcases e with ⟨k, v⟩
    simp only [checkRules] at hchk
    cases hf : firstF env.firstFuel env (.var k) with
    | ok fs me =>
      rw [hf] at hchk
      simp only at hchk
      simp only [List.mem_cons, Prod.mk.injEq] at hmem
      rcases hmem with ⟨rfl, _⟩ | hmem
      · exact ⟨fs, me, hf⟩
      · exact ih hchk x b hmem
    | recur n => rw [hf] at hchk; simp at hchk
    | fuel => rw [hf] at hchk; simp at hchk

theorem checkAll_rules {env : Env} (h : checkAll env = .ok) : checkRules env env = .ok := by
  unfold checkAll at h
  split at h
  · exact h
  · rename_i hne
    exact absurd h (by intro hc; exact hne hc)

theorem wfAux_mem {env : Env} : ∀ {l : List (Bytes × G)}, Env.wfAux env l = true →
    ∀ x b, (x, b) ∈ l → b.wf env = true := by
  intro l
  induction l with
  | nil => intro _ x b h; simp at h
  | cons e rest ih =>
    intro hwf x b hmem
    rcases e with ⟨k, v⟩
    simp only [Env.wfAux, Bool.and_eq_true] at hwf
    simp only [List.mem_cons, Prod.mk.injEq] at hmem
    rcases hmem with ⟨_, rfl⟩ | hmem
    · exact hwf.1
    · exact ih hwf.2 x b hmem

theorem maxSize_mem : ∀ {env : Env} x b, (x, b) ∈ env → b.size ≤ env.maxSize := by
  intro env
  induction env with
  | nil => intro x b h; simp at h
  | cons e rest ih =>
    intro x b hmem
    rcases e with ⟨k, v⟩
    simp only [List.mem_cons, Prod.mk.injEq] at hmem
    simp only [Env.maxSize]
    rcases hmem with ⟨_, rfl⟩ | hmem
    · omega
    · have := ih x b hmem; omega

theorem maxSize_pos (env : Env) : 1 ≤ env.maxSize := by
  induction env with
  | nil => simp [Env.maxSize]
  | cons e rest ih => rcases e with ⟨k, v⟩; simp only [Env.maxSize]; omega

/-- The hypotheses of the fuel bound follow from the compile-time checks. -/
theorem termHyp_of_check (c : Cx α) (hwf : c.env.wf = true) (hchk : checkAll c.env = .ok) :
    TermHyp c c.env.firstFuel c.env.maxSize where
  rules := fun x b h => checkRules_ok (checkAll_rules hchk) x b (find_mem h)
  wf := fun x b h => wfAux_mem hwf x b (find_mem h)
  size := fun x b h => maxSize_mem x b (find_mem h)

/-! ## Property theorems (C28) -/

/-- Every matcher of a checked grammar returns at every position within `matchBound`. -/
theorem C28_matchF_terminates (c : Cx α) (hwf : c.env.wf = true) (hchk : checkAll c.env = .ok)
    (g : G) (hg : g.wf c.env = true) (hs : g.size ≤ c.env.maxSize) (i : Nat) (hi : i ≤ c.N) :
    (matchF c (matchBound c.env c.N) g i).1 ≠ .abort .fuel := by
  have H := termHyp_of_check c hwf hchk
  have hok : FirstOk c.env (c.env.firstFuel + c.env.maxSize) g :=
    (firstOk_of_wf c.env _ H.rules g.size g (Nat.le_refl _) hg).mono (by omega)
  exact matchF_terminates_aux c _ _ H c.N _ g i hg hs hi (by omega) hok

/-- More fuel does not change the outcome: `matchBound` is a bound, not a tuning knob. -/
theorem C28_fuel_irrelevant (c : Cx α) (hwf : c.env.wf = true) (hchk : checkAll c.env = .ok)
    (g : G) (hg : g.wf c.env = true) (hs : g.size ≤ c.env.maxSize) (i : Nat) (hi : i ≤ c.N)
    (k : Nat) : matchF c (matchBound c.env c.N + k) g i = matchF c (matchBound c.env c.N) g i :=
  matchF_mono c _ g i (C28_matchF_terminates c hwf hchk g hg hs i hi) k

/-- `Compiler.Match` returns for every document rule name and every token list. -/
theorem C28_match_terminates (c : Cx α) (hwf : c.env.wf = true) (hchk : checkAll c.env = .ok)
    (doc : Bytes) : (matchTop c (matchBound c.env c.N) doc).res ≠ .abort .fuel := by
  show (matchF c (matchBound c.env c.N) (.var doc) 0).1 ≠ .abort .fuel
  cases hf : c.env.find doc with
  | some b =>
    exact C28_matchF_terminates c hwf hchk (.var doc) (by rw [wf_var, hf]; rfl)
      (by have := maxSize_pos c.env; simp [G.size]; omega) 0 (Nat.zero_le _)
  | none =>
    have hb : matchBound c.env c.N = (matchBound c.env c.N - 1) + 1 := by
      have := maxSize_pos c.env; unfold matchBound; omega
    rw [hb, matchF_var, hf]
    simp

/-- `Compiler.Parse` returns. -/
theorem C28_parse_terminates (c : Cx α) (hwf : c.env.wf = true) (hchk : checkAll c.env = .ok)
    (doc : Bytes) : parseTop c (matchBound c.env c.N) doc ≠ .abort .fuel := by
  have h := C28_match_terminates c hwf hchk doc
  unfold parseTop
  generalize matchTop c (matchBound c.env c.N) doc = t at h ⊢
  rcases t with ⟨res, left, lastErr⟩
  cases res with
  | ok n r =>
    simp only
    repeat' split
    all_goals simp
  | fail n e => simp
  | abort a => cases a <;> simp_all

/-- `Compiler.ParseExpr` returns. -/
theorem C28_parseExpr_terminates (c : Cx α) (hwf : c.env.wf = true) (hchk : checkAll c.env = .ok)
    (doc : Bytes) : parseExprTop c (matchBound c.env c.N) doc ≠ .abort .fuel := by
  have h := C28_match_terminates c hwf hchk doc
  unfold parseExprTop
  generalize matchTop c (matchBound c.env c.N) doc = t at h ⊢
  rcases t with ⟨res, left, lastErr⟩
  cases res with
  | ok n r =>
    simp only
    repeat' split
    all_goals simp
  | fail n e => simp
  | abort a => cases a <;> simp_all

/-! ## the model of the compile-time check never runs out of its own fuel -/

theorem firstsOf_error (mf : G → FRes) : ∀ (opts : List G) (o : FRes), firstsOf mf opts = .error o →
    (∃ g ∈ opts, mf g = o) ∧ ∀ fs me, o ≠ .ok fs me := by
  intro opts
  induction opts with
  | nil => intro o h; simp [firstsOf] at h
  | cons g gs ih =>
    intro o h
    cases hm : mf g with
    | ok f1 me1 =>
      cases hr : firstsOf mf gs with
      | ok r => simp [firstsOf, hm, hr] at h
      | error e =>
        simp only [firstsOf, hm, hr, Except.error.injEq] at h
        subst h
        obtain ⟨⟨g', hg', h'⟩, h2⟩ := ih e hr
        exact ⟨⟨g', by simp [hg'], h'⟩, h2⟩
    | recur n =>
      simp only [firstsOf, hm, Except.error.injEq] at h
      subst h
      exact ⟨⟨g, by simp, hm⟩, by simp⟩
    | fuel =>
      simp only [firstsOf, hm, Except.error.injEq] at h
      subst h
      exact ⟨⟨g, by simp, hm⟩, by simp⟩

theorem firstFuel_ge (env : Env) (k : Nat) (hk : k ≤ env.maxSize + 2) :
    env.length * (env.maxSize + 1) + k ≤ env.firstFuel := by
  unfold Env.firstFuel
  rw [Nat.succ_mul]
  omega

theorem allChoices_mem : ∀ {env : Env} {opts : List G}, opts ∈ env.allChoices →
    ∃ x b, (x, b) ∈ env ∧ opts ∈ b.choices := by
  intro env
  induction env with
  | nil => intro opts h; simp [Env.allChoices] at h
  | cons e rest ih =>
    intro opts h
    rcases e with ⟨k, v⟩
    simp only [Env.allChoices, List.mem_append] at h
    rcases h with h | h
    · exact ⟨k, v, by simp, h⟩
    · obtain ⟨x, b, hm, hc⟩ := ih h
      exact ⟨x, b, by simp [hm], hc⟩

theorem checkChoices_no_fuel (env : Env) : ∀ (cs : List (List G)),
    (∀ opts ∈ cs, ∀ g ∈ opts, g.size ≤ env.maxSize) → checkChoices env cs ≠ .fuel := by
  intro cs
  induction cs with
  | nil => intro _; simp [checkChoices]
  | cons opts rest ih =>
    intro h
    have hrest := ih (fun o ho => h o (by simp [ho]))
    simp only [checkChoices]
    cases hf : firstsOf (fun g => firstF env.firstFuel env g) opts with
    | ok r => simpa using hrest
    | error o =>
      obtain ⟨⟨g, hg, hm⟩, hnok⟩ := firstsOf_error _ opts o hf
      have hsz := h opts (by simp) g hg
      have hnf : firstF env.firstFuel env g ≠ .fuel :=
        firstF_no_fuel env.maxSize _ env g (fun x b hb => maxSize_mem x b hb) (firstFuel_ge env g.size (by omega))
      cases o with
      | ok fs me => exact absurd rfl (hnok fs me)
      | recur n => simp
      | fuel => exact absurd hm hnf

theorem checkRules_no_fuel (env : Env) : ∀ (l : List (Bytes × G)), checkRules env l ≠ .fuel := by
  intro l
  induction l with
  | nil => simp [checkRules]
  | cons e rest ih =>
    rcases e with ⟨name, b⟩
    simp only [checkRules]
    have hnf : firstF env.firstFuel env (.var name) ≠ .fuel :=
      firstF_no_fuel env.maxSize _ env (.var name) (fun x b hb => maxSize_mem x b hb)
        (firstFuel_ge env 1 (by omega))
    cases hm : firstF env.firstFuel env (.var name) with
    | ok fs me => simpa using ih
    | recur n => simp
    | fuel => exact absurd hm hnf

/-- The fuel `Env.firstFuel` given to `First` by the model of the compile-time checks always
suffices: `checkAll` answers `ok` or `recursive variable`, as the real `cl.NewEx` does. -/
theorem C28_check_never_fuel (env : Env) : checkAll env ≠ .fuel := by
  unfold checkAll
  have h1 : checkChoices env env.allChoices ≠ .fuel := by
    apply checkChoices_no_fuel
    intro opts hopts g hg
    obtain ⟨x, b, hb, hc⟩ := allChoices_mem hopts
    have := choices_size b.size b (Nat.le_refl _) opts hc g hg
    have := maxSize_mem x b hb
    omega
  split
  · exact checkRules_no_fuel env env
  · rename_i o hne
    cases ho : checkChoices env env.allChoices with
    | ok => simp [ho] at hne
    | recur n => simp
    | fuel => exact absurd ho h1

/-! ## Non-vacuity: the hypotheses hold for concrete grammars, and the two grammars that
used to diverge (DESIGN §6) are now handled -/

namespace Ex28
def bA : Bytes := [0x61]          -- "a"
def bX : Bytes := [0x78]          -- "x"
def bDoc : Bytes := [0x64, 0x6f, 0x63]   -- "doc"
def kIDENT : Nat := 4
def kINT : Nat := 5
def kCOMMA : Nat := 44

/-- `doc = *?"a"`: compiles; used to loop forever (the inner `?"a"` succeeds without consuming). -/
def envNullableRep : Env := [(bDoc, .rep0 (.rep01 (.lit kIDENT bA)))]
/-- `a = a "x"`: used to compile and overflow the stack. -/
def envLeftRec : Env := [(bA, .seq [.var bA, .lit kIDENT bX])]
/-- `doc = "q" b ; b = b "x"` : left recursion not reachable from a choice nor from `doc`'s left edge. -/
def envLeftRec2 : Env := [(bDoc, .seq [.lit kIDENT [0x71], .var [0x62]]),
                          ([0x62], .seq [.var [0x62], .lit kIDENT bX])]
/-- `doc = INT % ","`. -/
def envIntList : Env := [(bDoc, G.listOf (.tok kINT [0x49, 0x4e, 0x54]) (.tok kCOMMA [0x2c]))]

def cxOf (env : Env) (toks : List Tok) : Cx Nat := ⟨env, toks, 100, fun _ => none⟩

example : envNullableRep.wf = true ∧ checkAll envNullableRep = .ok := by decide
example : envIntList.wf = true ∧ checkAll envIntList = .ok := by decide
example : checkAll envLeftRec = .recur bA := by decide
example : checkAll envLeftRec2 = .recur [0x62] := by decide

/-- `*?"a"` on the input `b` returns the empty list after one zero-width iteration. -/
example : (matchTop (cxOf envNullableRep [⟨kIDENT, [0x62], 1, 2⟩]) 20 bDoc).res matches .ok 0 (.list []) := by
  decide

end Ex28

end GopModel.Tpl
