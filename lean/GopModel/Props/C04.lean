/-
C04 — a range expression `start:end:step` denotes the same integer sequence in a for-in loop,
a for-range statement and a comprehension; omitted start = 0, omitted step = 1.

`forLoop shape` is the `for` statement `cl/stmt.go:toForStmt` emits for the two statement
contexts (`shape` is regenerated from its source on every run: `Generated/RangeLoop.lean`);
`enumRun` is the iterator every other context goes through (`compileRangeExpr` →
`newRange(...)` → `qiniu/x/xgo.IntRange.Gop_Enum/Next`).

FULL STATEMENT (false on the current tree, see `C04_full_statement_false`):

    ∀ s e k fuel, k ≠ 0 → forLoop shape fuel s e k = enumRun fuel s e k

`toForStmt` always emits `k < end; k += step`, also for a negative step, whereas the iterator
counts down.  Proved here: the statement for `0 < k` (`C04_forSeq_eq_enumSeq`, with the same
fuel on both sides, so also "neither runs longer than the other"), the iterator's closed form
and its meaning for *both* signs, defaults for omitted parts, fuel adequacy, evaluation of the
bound expressions exactly once, and the concrete counterexample `(10, 0, -1)`.
Integers are unbounded; `C04_values_in_bounds` shows that every value the body sees lies
between `start` and `end`, so with |start|,|end|,|step| < 2^62 no Go `int` operation of either
lowering overflows.
-/
import GopModel.Model.Range
import GopModel.Generated.RangeLoop
namespace GopModel.Range
open GopModel.Generated.RangeLoop

/-! ## Truncated division facts (Go's `/`) -/

theorem tdiv_nonpos_of_lt {a k : Int} (hk : 0 < k) (h : a < k) : a.tdiv k ≤ 0 := by
  by_cases ha : 0 ≤ a
  · rw [Int.tdiv_eq_zero_of_lt ha h]; exact Int.le_refl 0
  · have h1 : a = -(-a) := by omega
    have h2 := Int.tdiv_nonneg (a := -a) (b := k) (by omega) (by omega)
    rw [h1, Int.neg_tdiv]; omega

theorem tdiv_step {a k : Int} (hk : 0 < k) (h : k ≤ a) :
    (a - k).tdiv k = a.tdiv k - 1 ∧ 0 < a.tdiv k := by
  rw [Int.tdiv_eq_ediv_of_nonneg (by omega), Int.tdiv_eq_ediv_of_nonneg (by omega)]
  have h1 : (a - k + 1 * k) / k = (a - k) / k + 1 := Int.add_mul_ediv_right _ _ (by omega)
  have h2 : a - k + 1 * k = a := by omega
  rw [h2] at h1
  have h3 := (Int.le_ediv_iff_mul_le (a := 1) (b := a) hk).2 (by omega)
  omega

/-- the count for a positive step -/
def cntPos (s e k : Int) : Int := (e - s + k - 1).tdiv k

theorem enumCount_pos {s e k : Int} (hk : 0 < k) : enumCount s e k = some (cntPos s e k) := by
  have : ¬ k = 0 := by omega
  simp [enumCount, this, hk, cntPos]

theorem enumCount_neg {s e k : Int} (hk : k < 0) :
    enumCount s e k = some (cntPos (-s) (-e) (-k)) := by
  have h0 : ¬ k = 0 := by omega
  have h1 : ¬ k > 0 := by omega
  simp only [enumCount, h0, h1, if_false, cntPos]
  have h2 : e - s + k + 1 = -(-e - -s + -k - 1) := by omega
  have h3 : (-(-e - -s + -k - 1)).tdiv k = ((-e - -s + -k - 1)).tdiv (-k) := by
    rw [Int.neg_tdiv, Int.tdiv_neg]
  rw [h2, h3]

theorem cntPos_pos_iff {s e k : Int} (hk : 0 < k) : 0 < cntPos s e k ↔ s < e := by
  unfold cntPos
  constructor
  · intro h
    by_cases hse : s < e
    · exact hse
    · have := tdiv_nonpos_of_lt (a := e - s + k - 1) hk (by omega); omega
  · intro h
    exact (tdiv_step (a := e - s + k - 1) hk (by omega)).2

theorem cntPos_step {s e k : Int} (hk : 0 < k) (h : s < e) :
    cntPos (s + k) e k = cntPos s e k - 1 := by
  unfold cntPos
  have h1 : e - (s + k) + k - 1 = (e - s + k - 1) - k := by omega
  rw [h1]
  exact (tdiv_step (a := e - s + k - 1) hk (by omega)).1

theorem lt_cntPos_iff {s e k : Int} (hk : 0 < k) (i : Nat) :
    (i : Int) < cntPos s e k ↔ s + k * (i : Int) < e := by
  have hki : 0 ≤ k * (i : Int) := Int.mul_nonneg (by omega) (by omega)
  by_cases hse : s < e
  · unfold cntPos
    rw [Int.tdiv_eq_ediv_of_nonneg (by omega)]
    have h1 := Int.le_ediv_iff_mul_le (a := (i : Int) + 1) (b := e - s + k - 1) hk
    have h2 : ((i : Int) + 1) * k = k * (i : Int) + k := by
      rw [Int.add_mul, Int.mul_comm]; omega
    rw [h2] at h1
    constructor
    · intro h
      have := h1.1 (by omega); omega
    · intro h
      have := h1.2 (by omega); omega
  · have : ¬ 0 < cntPos s e k := fun h => hse ((cntPos_pos_iff hk).1 h)
    constructor
    · intro h; omega
    · intro h; omega

/-! ## The emitted loop vs the iterator, positive step -/

theorem for_eq_iter_pos (e k : Int) (hk : 0 < k) : ∀ (fuel j : Nat) (s : Int),
    forLoopG shape (fun _ => e) (fun _ => k) fuel j s = iterLoop fuel (cntPos s e k) s k := by
  intro fuel
  induction fuel with
  | zero => intro j s; rfl
  | succ fuel ih =>
    intro j s
    by_cases hse : s < e
    · have hpos := (cntPos_pos_iff (s := s) (e := e) hk).2 hse
      have hc : shape.cond.eval s e = true := by simp [shape, Cmp.eval, hse]
      have hi : shape.inc.apply s k = s + k := by simp [shape, Inc.apply]
      simp only [forLoopG, iterLoop, hc, hi, if_true, gt_iff_lt, hpos]
      rw [ih (j + 1) (s + k), cntPos_step hk hse]
    · have hpos : ¬ 0 < cntPos s e k := fun h => hse ((cntPos_pos_iff hk).1 h)
      have hc : shape.cond.eval s e = false := by simp [shape, Cmp.eval, hse]
      simp [forLoopG, iterLoop, hc, hpos]

/-! ## Closed form of the iterator -/

theorem closedSeq_succ (s k : Int) (n : Nat) :
    closedSeq s k (n + 1) = s :: closedSeq (s + k) k n := by
  unfold closedSeq
  rw [List.range_succ_eq_map, List.map_cons, List.map_map]
  congr 1
  · simp
  · apply List.map_congr_left
    intro i _
    simp only [Function.comp, Nat.succ_eq_add_one, Int.natCast_add, Int.natCast_one, Int.mul_add,
      Int.mul_one]
    omega

theorem iterLoop_closed : ∀ (fuel : Nat) (n s k : Int), n.toNat < fuel →
    iterLoop fuel n s k = .done (closedSeq s k n.toNat) := by
  intro fuel
  induction fuel with
  | zero => intro n s k h; omega
  | succ fuel ih =>
    intro n s k h
    by_cases hn : n > 0
    · have h1 : (n - 1).toNat < fuel := by omega
      have h2 : n.toNat = (n - 1).toNat + 1 := by omega
      simp only [iterLoop, hn, if_true]
      rw [ih (n - 1) (s + k) k h1, h2, closedSeq_succ]; rfl
    · have h2 : n.toNat = 0 := by omega
      simp [iterLoop, hn, h2, closedSeq]

theorem mem_closedSeq (s k v : Int) (n : Nat) :
    v ∈ closedSeq s k n ↔ ∃ i : Nat, i < n ∧ v = s + k * (i : Int) := by
  unfold closedSeq
  simp only [List.mem_map, List.mem_range]
  constructor
  · rintro ⟨i, hi, rfl⟩; exact ⟨i, hi, rfl⟩
  · rintro ⟨i, hi, rfl⟩; exact ⟨i, hi, rfl⟩

/-! ## Syntactic contexts -/

/-- The three contexts of the property. -/
inductive Ctx where
  | forIn          -- `for x in a:b:c { … }`   (ast.ForPhraseStmt → toForStmt)
  | forRange       -- `for x := range a:b:c { … }` (ast.RangeStmt → toForStmt)
  | comprehension  -- `[x for x in a:b:c]`     (compileRangeExpr → newRange → Gop_Enum/Next)
  deriving Repr, DecidableEq

/-- What the body of context `c` sees for range expression `r` (within `fuel` iterations). -/
def denote (c : Ctx) (r : RangeExpr) (fuel : Nat) : Out :=
  match c with
  | .forIn => r.runFor shape fuel
  | .forRange => r.runFor shape fuel
  | .comprehension => r.runEnum enumDefStart enumDefStep fuel

/-! ## Property theorems (C04) -/

/-- Positive step: the emitted `for` loop and the iterator produce the same outcome for every
amount of fuel (same values, in the same order, and neither ends before the other). -/
theorem C04_forSeq_eq_enumSeq (s e k : Int) (hk : 0 < k) (fuel : Nat) :
    forLoop shape fuel s e k = enumRun fuel s e k := by
  unfold forLoop enumRun
  rw [enumCount_pos hk]
  exact for_eq_iter_pos e k hk fuel 0 s

/-- Closed form of the iterator for every non-zero step: `n` values `s, s+k, …, s+(n-1)k`
where `n` is the count `Gop_Enum` computes (non-positive counts give the empty sequence). -/
theorem C04_enumSeq_closed_form (s e k : Int) (hk : k ≠ 0) :
    ∃ n : Int, enumCount s e k = some n ∧ enumSeq s e k = .done (closedSeq s k n.toNat) := by
  by_cases hp : 0 < k
  · refine ⟨cntPos s e k, enumCount_pos hp, ?_⟩
    simp only [enumSeq, enumRun, enumFuel, enumCount_pos hp]
    exact iterLoop_closed _ _ _ _ (by omega)
  · have hn : k < 0 := by omega
    refine ⟨cntPos (-s) (-e) (-k), enumCount_neg hn, ?_⟩
    simp only [enumSeq, enumRun, enumFuel, enumCount_neg hn]
    exact iterLoop_closed _ _ _ _ (by omega)

/-- Meaning of the iterator's sequence: exactly the values `s + k·i` (i = 0,1,…) that lie
before `e` in the direction of the step. -/
theorem C04_enumSeq_mem_iff (s e k : Int) (hk : k ≠ 0) :
    ∃ l, enumSeq s e k = .done l ∧
      ∀ v, v ∈ l ↔ ∃ i : Nat, v = s + k * (i : Int) ∧ (if 0 < k then v < e else e < v) := by
  by_cases hp : 0 < k
  · refine ⟨closedSeq s k (cntPos s e k).toNat, ?_, ?_⟩
    · simp only [enumSeq, enumRun, enumFuel, enumCount_pos hp]
      exact iterLoop_closed _ _ _ _ (by omega)
    · intro v
      rw [mem_closedSeq]
      constructor
      · rintro ⟨i, hi, rfl⟩
        refine ⟨i, rfl, ?_⟩
        simp only [hp, if_true]
        exact (lt_cntPos_iff hp i).1 (by omega)
      · rintro ⟨i, rfl, hv⟩
        simp only [hp, if_true] at hv
        have := (lt_cntPos_iff hp i).2 hv
        exact ⟨i, by omega, rfl⟩
  · have hn : k < 0 := by omega
    have hp' : 0 < -k := by omega
    refine ⟨closedSeq s k (cntPos (-s) (-e) (-k)).toNat, ?_, ?_⟩
    · simp only [enumSeq, enumRun, enumFuel, enumCount_neg hn]
      exact iterLoop_closed _ _ _ _ (by omega)
    · intro v
      rw [mem_closedSeq]
      have key : ∀ i : Nat, (i : Int) < cntPos (-s) (-e) (-k) ↔ e < s + k * (i : Int) := by
        intro i
        rw [lt_cntPos_iff hp' i, Int.neg_mul]
        omega
      constructor
      · rintro ⟨i, hi, rfl⟩
        refine ⟨i, rfl, ?_⟩
        simp only [hp, if_false]
        exact (key i).1 (by omega)
      · rintro ⟨i, rfl, hv⟩
        simp only [hp, if_false] at hv
        have := (key i).2 hv
        exact ⟨i, by omega, rfl⟩

/-- Every value lies between start (inclusive) and end (exclusive) — hence no intermediate
`int` of either lowering leaves `[-2^63, 2^63)` when |s|,|e|,|k| < 2^62. -/
theorem C04_values_in_bounds (s e k : Int) (hk : k ≠ 0) (l : List Int)
    (h : enumSeq s e k = .done l) :
    ∀ v ∈ l, if 0 < k then s ≤ v ∧ v < e else e < v ∧ v ≤ s := by
  obtain ⟨l', hl', hmem⟩ := C04_enumSeq_mem_iff s e k hk
  rw [hl'] at h
  cases h
  intro v hv
  obtain ⟨i, rfl, hb⟩ := (hmem v).1 hv
  by_cases hp : 0 < k
  · simp only [hp, if_true] at hb ⊢
    have : 0 ≤ k * (i : Int) := Int.mul_nonneg (by omega) (by omega)
    omega
  · simp only [hp, if_false] at hb ⊢
    have : 0 ≤ (-k) * (i : Int) := Int.mul_nonneg (by omega) (by omega)
    rw [Int.neg_mul] at this
    omega

/-- Termination / fuel adequacy for a positive step: with the iterator's count + 1 units of
fuel the emitted loop finishes, with the closed-form sequence. -/
theorem C04_termination (s e k : Int) (hk : 0 < k) :
    forLoop shape (enumFuel s e k) s e k = .done (closedSeq s k (cntPos s e k).toNat) := by
  rw [C04_forSeq_eq_enumSeq s e k hk]
  simp only [enumRun, enumFuel, enumCount_pos hk]
  exact iterLoop_closed _ _ _ _ (by omega)

/-- Omitted start means 0 and omitted step means 1, in every context. -/
theorem C04_omitted_defaults (c : Ctx) (first : Option Int) (e : Int) (step : Option Int)
    (fuel : Nat) :
    denote c ⟨first, e, step⟩ fuel =
      denote c ⟨some (match first with | some v => v | none => 0), e,
                some (match step with | some v => v | none => 1)⟩ fuel := by
  cases c <;> cases first <;> cases step <;>
    simp [denote, RangeExpr.runFor, RangeExpr.runEnum, shape, enumDefStart, enumDefStep]

/-- PARTIAL form of the property (step positive or omitted): all three contexts agree. -/
theorem C04_same_in_all_contexts_partial (c₁ c₂ : Ctx) (r : RangeExpr) (fuel : Nat)
    (hk : ∀ k, r.step = some k → 0 < k) :
    denote c₁ r fuel = denote c₂ r fuel := by
  have key : r.runFor shape fuel = r.runEnum enumDefStart enumDefStep fuel := by
    obtain ⟨first, e, step⟩ := r
    cases step with
    | none =>
      cases first <;>
        simp only [RangeExpr.runFor, RangeExpr.runEnum, shape, enumDefStart, enumDefStep] <;>
        exact C04_forSeq_eq_enumSeq _ _ 1 (by omega) fuel
    | some k =>
      have hk' : 0 < k := hk k rfl
      cases first <;>
        simp only [RangeExpr.runFor, RangeExpr.runEnum, shape, enumDefStart] <;>
        exact C04_forSeq_eq_enumSeq _ _ k hk' fuel
  cases c₁ <;> cases c₂ <;> simp [denote, key]

/-- Non-trivial `end` / `step` expressions are evaluated exactly once (by the init
statement, into `_gop_end` / `_gop_step`): the statement over bound *expressions* — whose
value may change from one evaluation to the next — behaves as the loop over their first
values, which is also what `newRange(first, last, step)` receives. -/
theorem C04_bounds_evaluated_once (first last step : Bound) (fuel : Nat) :
    forStmt shape fuel first last step = forLoop shape fuel first.first last.first step.first := by
  have h1 : last.at shape.endTemp = fun _ => last.first := by
    funext j; cases last <;> simp [Bound.at, Bound.first, shape]
  have h2 : step.at shape.stepTemp = fun _ => step.first := by
    funext j; cases step <;> simp [Bound.at, Bound.first, shape]
  simp [forStmt, forLoop, h1, h2]

/-- The counterexample to the full statement: `for i in 10:0:-1` runs zero times while
`[x for x in 10:0:-1]` yields 10, 9, …, 1 (replayed on the implementation by the check). -/
theorem C04_neg_step_counterexample :
    forLoop shape 11 10 0 (-1) = .done [] ∧
    enumRun 11 10 0 (-1) = .done [10, 9, 8, 7, 6, 5, 4, 3, 2, 1] := by decide

/-- With a non-positive step and `start < end` the emitted loop never ends (until `int`
wraps around), while the iterator yields nothing. -/
theorem C04_neg_step_diverges (s e k : Int) (hk : k ≤ 0) (h : s < e) (fuel : Nat) :
    ∃ l, forLoop shape fuel s e k = .outOfFuel l := by
  unfold forLoop
  suffices H : ∀ (fuel j : Nat) (s : Int), s < e →
      ∃ l, forLoopG shape (fun _ => e) (fun _ => k) fuel j s = .outOfFuel l from H fuel 0 s h
  intro fuel
  induction fuel with
  | zero => intro j s _; exact ⟨[], rfl⟩
  | succ fuel ih =>
    intro j s hs
    obtain ⟨l, hl⟩ := ih (j + 1) (s + k) (by omega)
    refine ⟨s :: l, ?_⟩
    have hc : shape.cond.eval s e = true := by simp [shape, Cmp.eval, hs]
    have hi : shape.inc.apply s k = s + k := by simp [shape, Inc.apply]
    simp [forLoopG, hc, hi, hl, Out.cons]

/-- The full statement does not hold for the current `toForStmt`. -/
theorem C04_full_statement_false :
    ¬ (∀ (s e k : Int) (fuel : Nat), k ≠ 0 → forLoop shape fuel s e k = enumRun fuel s e k) := by
  intro h
  have := h 10 0 (-1) 11 (by decide)
  rw [C04_neg_step_counterexample.1, C04_neg_step_counterexample.2] at this
  cases this

/-! Non-vacuity -/
example : forLoop shape 5 1 10 3 = .done [1, 4, 7] := by decide
example : enumSeq 1 10 3 = .done [1, 4, 7] := by decide
example : enumSeq 10 0 (-3) = .done [10, 7, 4, 1] := by decide
example : enumSeq 0 0 1 = .done [] := by decide
example : enumSeq 5 0 2 = .done [] := by decide
example : enumRun 3 0 5 0 = .panic := by decide
example : forLoop shape 3 0 5 0 = .outOfFuel [0, 0, 0] := by decide
example : denote .forIn ⟨none, 3, none⟩ 4 = .done [0, 1, 2] := by decide
example : denote .comprehension ⟨none, 3, none⟩ 4 = .done [0, 1, 2] := by decide
example : forStmt shape 9 (.expr fun i => 1 + i) (.expr fun i => 10 + i) (.expr fun i => 3 + i)
    = .done [1, 4, 7] := by decide

end GopModel.Range
