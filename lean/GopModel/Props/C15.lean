/-
C15 — scanning is total and every token is the exact source text.

Theorems about the scanner model M1 (`GopModel.Scan.scan`, Model/Scan*.lean) for the dialects
`xgo` (/repo/scanner/scanner.go — the property's subject) and `tpl` (/repo/tpl/scanner, same
proof), for EVERY byte string, both comment modes (and `dontInsertSemis`), every classification
`U` of non-ASCII letters/digits.  Helper lemmas: Lemmas/Scan*.lean.

Reading fixed in DESIGN §2.6: inserted semicolons (`"\n"`) and EOF are zero-width (or sit on the
newline byte they stand for) and may share an offset with the next token; the BOM at offset 0
is skipped like white space; `c"…"`/`py"…"`: the literal is the string part.
-/
import GopModel.Lemmas.ScanRun
import GopModel.Lemmas.ScanSpecials
namespace GopModel.Scan.C15
open GopModel.Generated GopModel.Scan

variable {src : Array UInt8}

/-- `Init` leaves the scanner in a good state with nothing pending. -/
theorem initSt_good (src : Array UInt8) : Good src (initSt src) :=
  ⟨initSt_inv src, initSt_fail src, by simp, by simp [slice_self]⟩

/-- The run of `scan`: status `done`, and the tokens form a `Seq` from the offset behind the BOM. -/
theorem scan_seq (cfg : Cfg) (hd : cfg.d ≠ .go) (src : Array UInt8) :
    ∃ errs, scan cfg src = ⟨(scan cfg src).toks, errs, .done⟩ ∧
      Seq cfg src (initSt src).off (scan cfg src).toks := by
  have hg := initSt_good src
  have hmu : mu src (initSt src) < scanFuel src := by
    unfold mu scanFuel; simp; omega
  obtain ⟨ts, errs, he, hseq⟩ := scanLoop_spec cfg hd (scanFuel src) (initSt src) [] hg hmu
  have hf : frontier (initSt src) = (initSt src).off := by unfold frontier; simp
  rw [hf] at hseq
  unfold scan
  rw [he]
  exact ⟨errs, by simp, by simpa using hseq⟩

/-! ## Termination and no panic -/

/-- `scan` never runs out of fuel: `Scan` reaches EOF within `2·len(src)+3` calls (counting
skipped comments), and every inner loop ends within `len(src)+1` iterations. -/
theorem C15_scan_fuel_ok (cfg : Cfg) (hd : cfg.d ≠ .go) (src : Array UInt8) :
    (scan cfg src).status ≠ .outOfFuel := by
  obtain ⟨errs, he, _⟩ := scan_seq cfg hd src
  rw [he]; simp

/-- no index or slice goes out of range -/
theorem C15_scan_no_panic (cfg : Cfg) (hd : cfg.d ≠ .go) (src : Array UInt8) :
    (scan cfg src).status ≠ .panic := by
  obtain ⟨errs, he, _⟩ := scan_seq cfg hd src
  rw [he]; simp

theorem C15_scan_done (cfg : Cfg) (hd : cfg.d ≠ .go) (src : Array UInt8) :
    (scan cfg src).status = .done := by
  obtain ⟨errs, he, _⟩ := scan_seq cfg hd src
  rw [he]

/-! ## consequences of `Seq` -/

theorem seq_facts {cfg : Cfg} {f : Nat} {ts : List Token} (h : Seq cfg src f ts) :
    (∀ t ∈ ts, f ≤ t.pos ∧ t.pos ≤ t.stop ∧ t.stop ≤ src.size ∧ TokOK cfg.d src t) ∧
    ts.Pairwise (fun a b => a.stop ≤ b.pos) := by
  induction h with
  | last f t hf _ _ =>
    exact ⟨by intro t' ht'; simp at ht'; subst ht'; exact ⟨hf.pos_ge, hf.pos_le, hf.stop_le, hf.ok⟩, by simp⟩
  | cons f t ts hf _ _ ih =>
    refine ⟨?_, ?_⟩
    · intro t' ht'
      simp only [List.mem_cons] at ht'
      rcases ht' with rfl | h
      · exact ⟨hf.pos_ge, hf.pos_le, hf.stop_le, hf.ok⟩
      · have := ih.1 t' h
        exact ⟨by have := hf.pos_ge; have := hf.pos_le; omega, this.2⟩
    · rw [List.pairwise_cons]
      exact ⟨fun b hb => (ih.1 b hb).1, ih.2⟩
  | skip f f' ts hle _ _ ih =>
    exact ⟨fun t ht => ⟨by have := (ih.1 t ht).1; omega, (ih.1 t ht).2⟩, ih.2⟩

theorem seq_last {cfg : Cfg} {f : Nat} {ts : List Token} (h : Seq cfg src f ts) :
    ∃ t, ts.getLast? = some t ∧ t.kind = (codes cfg.d).EOF ∧ t.pos = src.size ∧
      ∀ t' ∈ ts.dropLast, t'.kind ≠ (codes cfg.d).EOF := by
  induction h with
  | last f t _ hk hp => exact ⟨t, by simp, hk, hp, by simp⟩
  | cons f t ts _ hk hs ih =>
    obtain ⟨e, he, h1, h2, h3⟩ := ih
    have hne : ts ≠ [] := by intro h; rw [h] at he; simp at he
    refine ⟨e, ?_, h1, h2, ?_⟩
    · rw [List.getLast?_cons_of_ne_nil hne]; exact he
    · intro t' ht'
      rw [List.dropLast_cons_of_ne_nil hne, List.mem_cons] at ht'
      rcases ht' with rfl | h
      · exact hk
      · exact h3 t' h
  | skip _ _ _ _ _ _ ih => exact ih

theorem seq_count {cfg : Cfg} {f : Nat} {ts : List Token} (h : Seq cfg src f ts) :
    (ts.filter fun t => decide (t.pos < t.stop)).length + f ≤ src.size := by
  induction h with
  | last f t hf _ hp =>
    have h1 := hf.pos_ge; have h2 := hf.stop_le; have h3 := hf.pos_le
    by_cases hlt : t.pos < t.stop
    · simp only [List.filter_cons, List.filter_nil, hlt, decide_true, if_true, List.length_cons, List.length_nil]
      omega
    · simp only [List.filter_cons, List.filter_nil, hlt, decide_false, Bool.false_eq_true, if_false, List.length_nil]
      omega
  | cons f t ts hf _ _ ih =>
    have h1 := hf.pos_ge; have h2 := hf.stop_le; have h3 := hf.pos_le
    by_cases hlt : t.pos < t.stop
    · simp only [List.filter_cons, hlt, decide_true, if_true, List.length_cons]
      omega
    · simp only [List.filter_cons, hlt, decide_false, Bool.false_eq_true, if_false]
      omega
  | skip f f' ts hle _ _ ih => omega

theorem seq_cover {cfg : Cfg} (hc : cfg.comments = true) {f : Nat} {ts : List Token} (h : Seq cfg src f ts) :
    ∀ i, f ≤ i → i < src.size → (∃ t ∈ ts, t.pos ≤ i ∧ i < t.stop) ∨ isWsByte (byteAt src i) := by
  induction h with
  | last f t hf _ hp =>
    intro i h1 h2
    exact Or.inr (hf.gap i h1 (by omega))
  | cons f t ts hf _ _ ih =>
    intro i h1 h2
    by_cases ha : i < t.pos
    · exact Or.inr (hf.gap i h1 ha)
    · by_cases hb : i < t.stop
      · exact Or.inl ⟨t, by simp, by omega, hb⟩
      · rcases ih i (by omega) h2 with ⟨t', ht', hp'⟩ | hw
        · exact Or.inl ⟨t', by simp [ht'], hp'⟩
        · exact Or.inr hw
  | skip f f' ts _ hcf _ _ => rw [hc] at hcf; cases hcf

/-! ## The property theorems -/

/-- The token list ends with EOF at offset `len(src)`, and EOF occurs nowhere else. -/
theorem C15_ends_with_eof (cfg : Cfg) (hd : cfg.d ≠ .go) (src : Array UInt8) :
    ∃ t, (scan cfg src).toks.getLast? = some t ∧ t.kind = (codes cfg.d).EOF ∧ t.pos = src.size ∧
      ∀ t' ∈ (scan cfg src).toks.dropLast, t'.kind ≠ (codes cfg.d).EOF := by
  obtain ⟨_, _, hseq⟩ := scan_seq cfg hd src
  exact seq_last hseq

/-- Offsets lie inside the source and are ordered: every token's span `[pos, stop)` is inside
`[0, len(src)]`, and a token ends before the next one begins (so offsets never decrease, and
strictly increase after a token that carries source text). -/
theorem C15_spans_ordered (cfg : Cfg) (hd : cfg.d ≠ .go) (src : Array UInt8) :
    (∀ t ∈ (scan cfg src).toks, t.pos ≤ t.stop ∧ t.stop ≤ src.size) ∧
    (scan cfg src).toks.Pairwise (fun a b => a.stop ≤ b.pos) := by
  obtain ⟨_, _, hseq⟩ := scan_seq cfg hd src
  have := seq_facts hseq
  exact ⟨fun t ht => ⟨(this.1 t ht).2.1, (this.1 t ht).2.2.1⟩, this.2⟩

/-- Offsets strictly increase from a token with source text to every later token. -/
theorem C15_offsets_strictly_increase (cfg : Cfg) (hd : cfg.d ≠ .go) (src : Array UInt8) :
    (scan cfg src).toks.Pairwise (fun a b => a.pos ≤ b.pos ∧ (a.pos < a.stop → a.pos < b.pos)) := by
  obtain ⟨h1, h2⟩ := C15_spans_ordered cfg hd src
  -- strengthen the pairwise relation with the per-token facts
  have : (scan cfg src).toks.Pairwise (fun a b => (a.pos ≤ a.stop) ∧ a.stop ≤ b.pos) := by
    apply List.Pairwise.imp_of_mem _ h2
    intro a b ha _ hab
    exact ⟨(h1 a ha).1, hab⟩
  exact this.imp (fun ⟨h3, h4⟩ => ⟨by omega, by intro h; omega⟩)

/-- At most one token with source text per source byte (inserted semicolons and EOF, which
have an empty span, come on top). -/
theorem C15_token_count (cfg : Cfg) (hd : cfg.d ≠ .go) (src : Array UInt8) :
    ((scan cfg src).toks.filter fun t => decide (t.pos < t.stop)).length ≤ src.size := by
  obtain ⟨_, _, hseq⟩ := scan_seq cfg hd src
  have := seq_count hseq
  omega

/-- Every token's text is the source text of its span (`TokOK`): identifiers, keywords, numbers,
units and rune literals exactly; strings and comments up to carriage returns (exactly when the
span has none); `c"…"`/`py"…"` after their prefix; operators and delimiters by their spelling in
the token table. The only other tokens are ILLEGAL, inserted semicolons and EOF. -/
theorem C15_token_text (cfg : Cfg) (hd : cfg.d ≠ .go) (src : Array UInt8) :
    ∀ t ∈ (scan cfg src).toks, TokOK cfg.d src t := by
  obtain ⟨_, _, hseq⟩ := scan_seq cfg hd src
  exact fun t ht => ((seq_facts hseq).1 t ht).2.2.2

/-- With comment scanning on, every byte behind the optional byte-order mark belongs to a token
or is a blank, tab, newline or carriage return. -/
theorem C15_cover (cfg : Cfg) (hd : cfg.d ≠ .go) (hc : cfg.comments = true) (src : Array UInt8) :
    ∀ i, (initSt src).off ≤ i → i < src.size →
      (∃ t ∈ (scan cfg src).toks, t.pos ≤ i ∧ i < t.stop) ∨ isWsByte (byteAt src i) := by
  obtain ⟨_, _, hseq⟩ := scan_seq cfg hd src
  exact seq_cover hc hseq

/-- "exactly one token": spans of different tokens do not overlap -/
theorem C15_spans_disjoint (cfg : Cfg) (hd : cfg.d ≠ .go) (src : Array UInt8) :
    (scan cfg src).toks.Pairwise (fun a b => ∀ i, ¬(a.pos ≤ i ∧ i < a.stop ∧ b.pos ≤ i ∧ i < b.stop)) := by
  exact (C15_spans_ordered cfg hd src).2.imp (fun h i ⟨_, h2, h3, _⟩ => by omega)

/-! ## the byte-order mark -/

theorem decodeRune_bom (src : Array UInt8) (i : Nat) (h : (decodeRune src i).1 = bomCh) :
    (decodeRune src i).2 = 3 ∧ byteAt src i = 0xEF ∧ byteAt src (i + 1) = 0xBB ∧ byteAt src (i + 2) = 0xBF := by
  have hb := fun j => byteAt_lt src j
  have h0 := hb i; have h1 := hb (i + 1); have h2 := hb (i + 2); have h3 := hb (i + 3)
  generalize hr : decodeRune src i = r at h ⊢
  unfold decodeRune at hr
  simp only [] at hr
  repeat' split at hr
  all_goals (subst hr; simp only [bomCh, runeError] at h ⊢)
  all_goals (first | omega | (refine ⟨trivial, ?_, ?_, ?_⟩ <;> omega))

/-- `Init` starts scanning at offset 0, or at offset 3 behind a byte-order mark `EF BB BF` -/
theorem C15_init_offset (src : Array UInt8) :
    (initSt src).off = 0 ∨
    ((initSt src).off = 3 ∧ byteAt src 0 = 0xEF ∧ byteAt src 1 = 0xBB ∧ byteAt src 2 = 0xBF) := by
  unfold initSt
  simp only []
  split
  · rename_i hbom
    right
    rw [next_ch] at hbom
    simp only at hbom
    split at hbom
    · rename_i hsz
      split at hbom
      · simp only [bomCh] at hbom; omega
      · have := decodeRune_bom src 0 hbom
        have hw := decodeRune_width src 0 hsz
        refine ⟨?_, this.2.1, by simpa using this.2.2.1, by simpa using this.2.2.2⟩
        rw [next_off, next_rdOff]
        simp only [hsz, if_true]
        rename_i hb
        simp only [hb, if_false, this.1]
        split <;> omega
    · simp [bomCh, eofCh] at hbom
  · left
    rw [next_off]
    simp only
    split <;> omega


/-! ## the text property, kind by kind -/

/-- keyword codes lie strictly between keyword_beg and keyword_end -/
theorem keyword_code_range (d : Dialect) (hd : d ≠ .go) {l : List UInt8} {k : Nat}
    (h : (codes d).keywords.lookup l = some k) : Tokens.XGo.keyword_beg < k ∧ k < Tokens.XGo.keyword_end ∧ d = .xgo := by
  cases d
  · have hall : (xgoCodes.keywords.all fun e => decide (Tokens.XGo.keyword_beg < e.2) && decide (e.2 < Tokens.XGo.keyword_end)) = true := by
      decide +kernel
    have := (List.all_eq_true.mp hall) _ (mem_of_lookup' h)
    simp only [Bool.and_eq_true, decide_eq_true_eq] at this
    exact ⟨this.1, this.2, rfl⟩
  · simp [codes, tplCodes] at h
  · exact absurd rfl hd

/-- Every token of the classes named in C15, with its text:
* identifier, keyword, INT/FLOAT/IMAG/RAT, UNIT, CHAR: the literal is exactly the source span,
  which is not empty;
* STRING, COMMENT: the literal is the source span up to carriage returns (exactly the span when
  it contains none);
* CSTRING / PYSTRING (xgo): one / two prefix bytes, then the literal is exactly the rest;
* operators and delimiters (every token reported by `IsOperator` except an inserted `;`): the
  spelling of the token is exactly the source span. -/
theorem C15_text_by_kind (cfg : Cfg) (hd : cfg.d ≠ .go) (src : Array UInt8) (t : Token)
    (ht : t ∈ (scan cfg src).toks) :
    ((t.kind = (codes cfg.d).IDENT ∨ t.kind = (codes cfg.d).INT ∨ t.kind = (codes cfg.d).FLOAT ∨
        t.kind = (codes cfg.d).IMAG ∨ t.kind = (codes cfg.d).RAT ∨ t.kind = (codes cfg.d).UNIT ∨
        t.kind = (codes cfg.d).CHAR ∨ (∃ l, (codes cfg.d).keywords.lookup l = some t.kind)) →
      t.pos < t.stop ∧ t.lit = slice src t.pos t.stop) ∧
    ((t.kind = (codes cfg.d).STRING ∨ t.kind = (codes cfg.d).COMMENT) →
      t.pos < t.stop ∧ TextCR t.lit (slice src t.pos t.stop)) ∧
    (cfg.d = .xgo → t.kind = (codes cfg.d).CSTRING → t.pos + 1 < t.stop ∧ t.lit = slice src (t.pos + 1) t.stop) ∧
    (cfg.d = .xgo → t.kind = (codes cfg.d).PYSTRING → t.pos + 2 < t.stop ∧ t.lit = slice src (t.pos + 2) t.stop) ∧
    (isOpCode cfg.d t.kind = true → ¬(t.kind = (codes cfg.d).SEMICOLON ∧ t.lit = [0x0A]) →
      t.pos < t.stop ∧ spelling cfg.d t.kind = some (slice src t.pos t.stop)) := by
  have hok := C15_token_text cfg hd src t ht
  -- reduce the codes of the dialect to numerals
  have hkw : ∀ l, (codes cfg.d).keywords.lookup l = some t.kind → 60 < t.kind ∧ t.kind < 86 ∧ cfg.d = .xgo := by
    intro l h
    have := keyword_code_range cfg.d hd h
    simpa [Tokens.XGo.keyword_beg, Tokens.XGo.keyword_end] using this
  cases hdd : cfg.d with
  | go => exact absurd hdd hd
  | xgo =>
    rw [hdd] at hok hkw
    simp only [codes, xgoCodes, Tokens.XGo.IDENT, Tokens.XGo.INT, Tokens.XGo.FLOAT, Tokens.XGo.IMAG, Tokens.XGo.RAT,
      Tokens.XGo.UNIT, Tokens.XGo.CHAR, Tokens.XGo.STRING, Tokens.XGo.COMMENT, Tokens.XGo.CSTRING, Tokens.XGo.PYSTRING,
      Tokens.XGo.SEMICOLON, Tokens.XGo.ILLEGAL, Tokens.XGo.EOF, isOpCode, Tokens.XGo.isOperator, Bool.or_eq_true,
      Bool.and_eq_true, decide_eq_true_eq] at hok hkw ⊢
    cases hok with
    | exact hk hne h =>
      have hr : (t.kind = 4 ∨ t.kind = 5 ∨ t.kind = 6 ∨ t.kind = 7 ∨ t.kind = 10 ∨ t.kind = 91 ∨ t.kind = 8) ∨ (60 < t.kind ∧ t.kind < 86) := by
        simp only [codes, xgoCodes, Tokens.XGo.IDENT, Tokens.XGo.INT, Tokens.XGo.FLOAT, Tokens.XGo.IMAG, Tokens.XGo.RAT,
          Tokens.XGo.UNIT, Tokens.XGo.CHAR] at hk
        rcases hk with h | h | h | h | h | h | h | ⟨l, h⟩
        · left; omega
        · left; omega
        · left; omega
        · left; omega
        · left; omega
        · left; omega
        · left; omega
        · right; exact ⟨(hkw l h).1, (hkw l h).2.1⟩
      refine ⟨fun _ => ⟨hne, h⟩, ?_, ?_, ?_, ?_⟩
      · intro h2; omega
      · intro _ h2; omega
      · intro _ h2; omega
      · intro h2 _; omega
    | text hk hne h =>
      simp only [codes, xgoCodes, Tokens.XGo.STRING, Tokens.XGo.COMMENT] at hk
      refine ⟨?_, fun _ => ⟨hne, h⟩, ?_, ?_, ?_⟩
      · intro h2
        rcases h2 with h2 | h2 | h2 | h2 | h2 | h2 | h2 | ⟨l, h2⟩
        all_goals first | omega | (have := hkw l h2; omega)
      · intro _ h2; omega
      · intro _ h2; omega
      · intro h2 _; omega
    | prefixed _ n hk hne h =>
      simp only [codes, xgoCodes, Tokens.XGo.CSTRING, Tokens.XGo.PYSTRING] at hk
      refine ⟨?_, ?_, ?_, ?_, ?_⟩
      · intro h2
        rcases h2 with h2 | h2 | h2 | h2 | h2 | h2 | h2 | ⟨l, h2⟩
        all_goals first | omega | (have := hkw l h2; omega)
      · intro h2; omega
      · intro _ h2
        rcases hk with ⟨_, hn⟩ | ⟨hk, _⟩
        · subst hn; exact ⟨hne, h⟩
        · omega
      · intro _ h2
        rcases hk with ⟨hk, _⟩ | ⟨_, hn⟩
        · omega
        · subst hn; exact ⟨hne, h⟩
      · intro h2 _; omega
    | op hs hne hl hkne hop =>
      simp only [isOpCode, Tokens.XGo.isOperator, Bool.or_eq_true, Bool.and_eq_true, decide_eq_true_eq] at hop
      refine ⟨?_, ?_, ?_, ?_, fun _ _ => ⟨hne, hs⟩⟩
      · intro h2
        rcases h2 with h2 | h2 | h2 | h2 | h2 | h2 | h2 | ⟨l, h2⟩
        all_goals first | omega | (have := hkw l h2; omega)
      · intro h2; omega
      · intro _ h2; omega
      · intro _ h2; omega
    | illegal hk hne =>
      simp only [codes, xgoCodes, Tokens.XGo.ILLEGAL] at hk
      refine ⟨?_, ?_, ?_, ?_, ?_⟩
      · intro h2
        rcases h2 with h2 | h2 | h2 | h2 | h2 | h2 | h2 | ⟨l, h2⟩
        all_goals first | omega | (have := hkw l h2; omega)
      · intro h2; omega
      · intro _ h2; omega
      · intro _ h2; omega
      · intro h2 _; omega
    | auto hk hw =>
      simp only [codes, xgoCodes, Tokens.XGo.SEMICOLON, Tokens.XGo.EOF] at hk
      refine ⟨?_, ?_, ?_, ?_, ?_⟩
      · intro h2
        rcases h2 with h2 | h2 | h2 | h2 | h2 | h2 | h2 | ⟨l, h2⟩
        all_goals first | omega | (have := hkw l h2; omega)
      · intro h2; omega
      · intro _ h2; omega
      · intro _ h2; omega
      · intro h2 h3
        rcases hk with hk | hk
        · exact absurd hk h3
        · omega
  | tpl =>
    rw [hdd] at hok hkw
    have hnokw : ∀ l, ¬ ((codes Dialect.tpl).keywords.lookup l = some t.kind) := by
      intro l h; simp [codes, tplCodes] at h
    simp only [codes, tplCodes, Tokens.Tpl.IDENT, Tokens.Tpl.INT, Tokens.Tpl.FLOAT, Tokens.Tpl.IMAG, Tokens.Tpl.RAT,
      Tokens.Tpl.UNIT, Tokens.Tpl.CHAR, Tokens.Tpl.STRING, Tokens.Tpl.COMMENT,
      Tokens.Tpl.SEMICOLON, Tokens.Tpl.ILLEGAL, Tokens.Tpl.EOF, isOpCode, Tokens.Tpl.literal_end,
      reduceCtorEq, false_implies, true_and, List.lookup_nil] at hok hkw hnokw ⊢
    cases hok with
    | exact hk hne h =>
      have hr : t.kind = 4 ∨ t.kind = 5 ∨ t.kind = 6 ∨ t.kind = 7 ∨ t.kind = 10 ∨ t.kind = 11 ∨ t.kind = 8 := by
        simp only [codes, tplCodes, Tokens.Tpl.IDENT, Tokens.Tpl.INT, Tokens.Tpl.FLOAT, Tokens.Tpl.IMAG, Tokens.Tpl.RAT,
          Tokens.Tpl.UNIT, Tokens.Tpl.CHAR, List.lookup_nil] at hk
        rcases hk with h | h | h | h | h | h | h | ⟨l, h⟩
        all_goals first | omega | (cases h)
      refine ⟨fun _ => ⟨hne, h⟩, ?_, ?_⟩
      · intro h2; omega
      · intro h2 _; have h2' := of_decide_eq_true h2; omega
    | text hk hne h =>
      simp only [codes, tplCodes, Tokens.Tpl.STRING, Tokens.Tpl.COMMENT] at hk
      refine ⟨?_, fun _ => ⟨hne, h⟩, ?_⟩
      · intro h2
        rcases h2 with h2 | h2 | h2 | h2 | h2 | h2 | h2 | ⟨l, h2⟩
        all_goals first | omega | (cases h2)
      · intro h2 _; have h2' := of_decide_eq_true h2; omega
    | prefixed hx _ _ _ _ => cases hx
    | op hs hne hl hkne hop =>
      have hop' : 12 < t.kind := of_decide_eq_true hop
      refine ⟨?_, ?_, fun _ _ => ⟨hne, hs⟩⟩
      · intro h2
        rcases h2 with h2 | h2 | h2 | h2 | h2 | h2 | h2 | ⟨l, h2⟩
        all_goals first | omega | (cases h2)
      · intro h2; omega
    | illegal hk hne =>
      simp only [codes, tplCodes, Tokens.Tpl.ILLEGAL] at hk
      refine ⟨?_, ?_, ?_⟩
      · intro h2
        rcases h2 with h2 | h2 | h2 | h2 | h2 | h2 | h2 | ⟨l, h2⟩
        all_goals first | omega | (cases h2)
      · intro h2; omega
      · intro h2 _; have h2' := of_decide_eq_true h2; omega
    | auto hk hw =>
      simp only [codes, tplCodes, Tokens.Tpl.SEMICOLON, Tokens.Tpl.EOF] at hk
      refine ⟨?_, ?_, ?_⟩
      · intro h2
        rcases h2 with h2 | h2 | h2 | h2 | h2 | h2 | h2 | ⟨l, h2⟩
        all_goals first | omega | (cases h2)
      · intro h2; omega
      · intro h2 h3
        have h2' := of_decide_eq_true h2
        rcases hk with hk | hk
        · exact absurd hk h3
        · omega


/-! ## Non-vacuity: concrete runs (kernel-evaluated) -/

def noU : UCls := { isLetter := fun _ => false, isDigit := fun _ => false }

/-- `x := 1km // c` + CR LF + `py"s" # d`: positions, spans, kinds and literals of the xgo run, comments on -/
def ex1 : Array UInt8 :=
  #[0x78, 0x20, 0x3A, 0x3D, 0x20, 0x31, 0x6B, 0x6D, 0x20, 0x2F, 0x2F, 0x20, 0x63, 0x0D, 0x0A,
    0x70, 0x79, 0x22, 0x73, 0x22, 0x20, 0x23, 0x20, 0x64]

example : (scan { d := .xgo, comments := true, noSemis := false, U := noU } ex1).status = .done ∧
    ((scan { d := .xgo, comments := true, noSemis := false, U := noU } ex1).toks.map fun t => (t.pos, t.stop, t.kind)) =
      [(0, 1, Tokens.XGo.IDENT), (2, 4, Tokens.XGo.DEFINE), (5, 6, Tokens.XGo.INT), (6, 8, Tokens.XGo.UNIT),
       (9, 9, Tokens.XGo.SEMICOLON), (9, 14, Tokens.XGo.COMMENT), (15, 20, Tokens.XGo.PYSTRING),
       (21, 21, Tokens.XGo.SEMICOLON), (21, 24, Tokens.XGo.COMMENT), (24, 24, Tokens.XGo.EOF)] := by
  decide +kernel

/-- the comment literal lost its carriage return: `TextCR` is strictly weaker than equality here -/
example : ((scan { d := .xgo, comments := true, noSemis := false, U := noU } ex1).toks.map (·.lit))[5]? =
    some [0x2F, 0x2F, 0x20, 0x63] := by decide +kernel

/-- a source that starts with a BOM, contains a NUL and ends inside a comment: errors, no panic -/
def ex2 : Array UInt8 := #[0xEF, 0xBB, 0xBF, 0x61, 0x00, 0x2F, 0x2A, 0x62]

example : (scan { d := .xgo, comments := false, noSemis := false, U := noU } ex2).status = .done ∧
    (initSt ex2).off = 3 ∧
    (scan { d := .xgo, comments := false, noSemis := false, U := noU } ex2).errs.length = 3 := by
  decide +kernel

/-- the bound of `C15_token_count` is attained: `;;;` has three source-text tokens in three bytes -/
example : ((scan { d := .xgo, comments := true, noSemis := false, U := noU } #[0x3B, 0x3B, 0x3B]).toks.filter
    fun t => decide (t.pos < t.stop)).length = 3 := by decide +kernel

/-- tpl: `1km x` -/
example : ((scan { d := .tpl, comments := true, noSemis := false, U := noU } #[0x31, 0x6B, 0x6D, 0x20, 0x78]).toks.map
    fun t => (t.pos, t.stop, t.kind)) =
    [(0, 1, Tokens.Tpl.INT), (1, 3, Tokens.Tpl.UNIT), (4, 5, Tokens.Tpl.IDENT), (5, 5, Tokens.Tpl.SEMICOLON),
     (5, 5, Tokens.Tpl.EOF)] := by decide +kernel

end GopModel.Scan.C15
