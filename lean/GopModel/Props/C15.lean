/-
C15 — scanning is total and every token is the exact source text.

Theorems about the scanner model M1 (`GopModel.Scan.scan`, Model/Scan*.lean) for the dialects
`xgo` (/repo/scanner/scanner.go — the property's subject) and `tpl` (/repo/tpl/scanner, same
proof), for EVERY byte string, both comment modes (and `dontInsertSemis`), every classification
`U` of non-ASCII letters/digits.  Helper lemmas: Lemmas/Scan*.lean.

Reading fixed in DESIGN §2.6: inserted semicolons (`"\n"`) and EOF are zero-width (or sit on the
newline byte they stand for) and may share an offset with the next token; the BOM at offset 0
is skipped like white space; `c"…"`/`py"…"`: the literal is the string part.
-/
import GopModel.Lemmas.ScanRun
namespace GopModel.Scan.C15
open GopModel.Generated GopModel.Scan

variable {src : Array UInt8}

/-- `Init` leaves the scanner in a good state with nothing pending. -/
theorem initSt_good (src : Array UInt8) : Good src (initSt src) :=
  ⟨initSt_inv src, initSt_fail src, by simp, by simp [slice_self]⟩

/-- The run of `scan`: status `done`, and the tokens form a `Seq` from the offset behind the BOM. -/
theorem scan_seq (cfg : Cfg) (hd : cfg.d ≠ .go) (src : Array UInt8) :
    ∃ errs, scan cfg src = ⟨(scan cfg src).toks, errs, .done⟩ ∧
      Seq cfg src (initSt src).off (scan cfg src).toks := by
  have hg := initSt_good src
  have hmu : mu src (initSt src) < scanFuel src := by
    unfold mu scanFuel; simp; omega
  obtain ⟨ts, errs, he, hseq⟩ := scanLoop_spec cfg hd (scanFuel src) (initSt src) [] hg hmu
  have hf : frontier (initSt src) = (initSt src).off := by unfold frontier; simp
  rw [hf] at hseq
  unfold scan
  rw [he]
  exact ⟨errs, by simp, by simpa using hseq⟩

/-! ## Termination and no panic -/

/-- `scan` never runs out of fuel: `Scan` reaches EOF within `2·len(src)+3` calls (counting
skipped comments), and every inner loop ends within `len(src)+1` iterations. -/
theorem C15_scan_fuel_ok (cfg : Cfg) (hd : cfg.d ≠ .go) (src : Array UInt8) :
    (scan cfg src).status ≠ .outOfFuel := by
  obtain ⟨errs, he, _⟩ := scan_seq cfg hd src
  rw [he]; simp

/-- no index or slice goes out of range -/
theorem C15_scan_no_panic (cfg : Cfg) (hd : cfg.d ≠ .go) (src : Array UInt8) :
    (scan cfg src).status ≠ .panic := by
  obtain ⟨errs, he, _⟩ := scan_seq cfg hd src
  rw [he]; simp

theorem C15_scan_done (cfg : Cfg) (hd : cfg.d ≠ .go) (src : Array UInt8) :
    (scan cfg src).status = .done := by
  obtain ⟨errs, he, _⟩ := scan_seq cfg hd src
  rw [he]

/-! ## consequences of `Seq` -/

theorem seq_facts {cfg : Cfg} {f : Nat} {ts : List Token} (h : Seq cfg src f ts) :
    (∀ t ∈ ts, f ≤ t.pos ∧ t.pos ≤ t.stop ∧ t.stop ≤ src.size ∧ TokOK cfg.d src t) ∧
    ts.Pairwise (fun a b => a.stop ≤ b.pos) := by
  induction h with
  | last f t hf _ _ =>
    exact ⟨by intro t' ht'; simp at ht'; subst ht'; exact ⟨hf.pos_ge, hf.pos_le, hf.stop_le, hf.ok⟩, by simp⟩
  | cons f t ts hf _ _ ih =>
    refine ⟨?_, ?_⟩
    · intro t' ht'
      simp only [List.mem_cons] at ht'
      rcases ht' with rfl | h
      · exact ⟨hf.pos_ge, hf.pos_le, hf.stop_le, hf.ok⟩
      · have := ih.1 t' h
        exact ⟨by have := hf.pos_ge; have := hf.pos_le; omega, this.2⟩
    · rw [List.pairwise_cons]
      exact ⟨fun b hb => (ih.1 b hb).1, ih.2⟩
  | skip f f' ts hle _ _ ih =>
    exact ⟨fun t ht => ⟨by have := (ih.1 t ht).1; omega, (ih.1 t ht).2⟩, ih.2⟩

theorem seq_last {cfg : Cfg} {f : Nat} {ts : List Token} (h : Seq cfg src f ts) :
    ∃ t, ts.getLast? = some t ∧ t.kind = (codes cfg.d).EOF ∧ t.pos = src.size ∧
      ∀ t' ∈ ts.dropLast, t'.kind ≠ (codes cfg.d).EOF := by
  induction h with
  | last f t _ hk hp => exact ⟨t, by simp, hk, hp, by simp⟩
  | cons f t ts _ hk hs ih =>
    obtain ⟨e, he, h1, h2, h3⟩ := ih
    have hne : ts ≠ [] := by intro h; rw [h] at he; simp at he
    refine ⟨e, ?_, h1, h2, ?_⟩
    · rw [List.getLast?_cons_of_ne_nil hne]; exact he
    · intro t' ht'
      rw [List.dropLast_cons_of_ne_nil hne, List.mem_cons] at ht'
      rcases ht' with rfl | h
      · exact hk
      · exact h3 t' h
  | skip _ _ _ _ _ _ ih => exact ih

theorem seq_count {cfg : Cfg} {f : Nat} {ts : List Token} (h : Seq cfg src f ts) :
    (ts.filter fun t => decide (t.pos < t.stop)).length + f ≤ src.size := by
  induction h with
  | last f t hf _ hp =>
    have h1 := hf.pos_ge; have h2 := hf.stop_le; have h3 := hf.pos_le
    by_cases hlt : t.pos < t.stop
    · simp only [List.filter_cons, List.filter_nil, hlt, decide_true, if_true, List.length_cons, List.length_nil]
      omega
    · simp only [List.filter_cons, List.filter_nil, hlt, decide_false, Bool.false_eq_true, if_false, List.length_nil]
      omega
  | cons f t ts hf _ _ ih =>
    have h1 := hf.pos_ge; have h2 := hf.stop_le; have h3 := hf.pos_le
    by_cases hlt : t.pos < t.stop
    · simp only [List.filter_cons, hlt, decide_true, if_true, List.length_cons]
      omega
    · simp only [List.filter_cons, hlt, decide_false, Bool.false_eq_true, if_false]
      omega
  | skip f f' ts hle _ _ ih => omega

theorem seq_cover {cfg : Cfg} (hc : cfg.comments = true) {f : Nat} {ts : List Token} (h : Seq cfg src f ts) :
    ∀ i, f ≤ i → i < src.size → (∃ t ∈ ts, t.pos ≤ i ∧ i < t.stop) ∨ isWsByte (byteAt src i) := by
  induction h with
  | last f t hf _ hp =>
    intro i h1 h2
    exact Or.inr (hf.gap i h1 (by omega))
  | cons f t ts hf _ _ ih =>
    intro i h1 h2
    by_cases ha : i < t.pos
    · exact Or.inr (hf.gap i h1 ha)
    · by_cases hb : i < t.stop
      · exact Or.inl ⟨t, by simp, by omega, hb⟩
      · rcases ih i (by omega) h2 with ⟨t', ht', hp'⟩ | hw
        · exact Or.inl ⟨t', by simp [ht'], hp'⟩
        · exact Or.inr hw
  | skip f f' ts _ hcf _ _ => rw [hc] at hcf; cases hcf

/-! ## The property theorems -/

/-- The token list ends with EOF at offset `len(src)`, and EOF occurs nowhere else. -/
theorem C15_ends_with_eof (cfg : Cfg) (hd : cfg.d ≠ .go) (src : Array UInt8) :
    ∃ t, (scan cfg src).toks.getLast? = some t ∧ t.kind = (codes cfg.d).EOF ∧ t.pos = src.size ∧
      ∀ t' ∈ (scan cfg src).toks.dropLast, t'.kind ≠ (codes cfg.d).EOF := by
  obtain ⟨_, _, hseq⟩ := scan_seq cfg hd src
  exact seq_last hseq

/-- Offsets lie inside the source and are ordered: every token's span `[pos, stop)` is inside
`[0, len(src)]`, and a token ends before the next one begins (so offsets never decrease, and
strictly increase after a token that carries source text). -/
theorem C15_spans_ordered (cfg : Cfg) (hd : cfg.d ≠ .go) (src : Array UInt8) :
    (∀ t ∈ (scan cfg src).toks, t.pos ≤ t.stop ∧ t.stop ≤ src.size) ∧
    (scan cfg src).toks.Pairwise (fun a b => a.stop ≤ b.pos) := by
  obtain ⟨_, _, hseq⟩ := scan_seq cfg hd src
  have := seq_facts hseq
  exact ⟨fun t ht => ⟨(this.1 t ht).2.1, (this.1 t ht).2.2.1⟩, this.2⟩

/-- Offsets strictly increase from a token with source text to every later token. -/
theorem C15_offsets_strictly_increase (cfg : Cfg) (hd : cfg.d ≠ .go) (src : Array UInt8) :
    (scan cfg src).toks.Pairwise (fun a b => a.pos ≤ b.pos ∧ (a.pos < a.stop → a.pos < b.pos)) := by
  obtain ⟨h1, h2⟩ := C15_spans_ordered cfg hd src
  -- strengthen the pairwise relation with the per-token facts
  have : (scan cfg src).toks.Pairwise (fun a b => (a.pos ≤ a.stop) ∧ a.stop ≤ b.pos) := by
    apply List.Pairwise.imp_of_mem _ h2
    intro a b ha _ hab
    exact ⟨(h1 a ha).1, hab⟩
  exact this.imp (fun ⟨h3, h4⟩ => ⟨by omega, by intro h; omega⟩)

/-- At most one token with source text per source byte (inserted semicolons and EOF, which
have an empty span, come on top). -/
theorem C15_token_count (cfg : Cfg) (hd : cfg.d ≠ .go) (src : Array UInt8) :
    ((scan cfg src).toks.filter fun t => decide (t.pos < t.stop)).length ≤ src.size := by
  obtain ⟨_, _, hseq⟩ := scan_seq cfg hd src
  have := seq_count hseq
  omega

/-- Every token's text is the source text of its span (`TokOK`): identifiers, keywords, numbers,
units and rune literals exactly; strings and comments up to carriage returns (exactly when the
span has none); `c"…"`/`py"…"` after their prefix; operators and delimiters by their spelling in
the token table. The only other tokens are ILLEGAL, inserted semicolons and EOF. -/
theorem C15_token_text (cfg : Cfg) (hd : cfg.d ≠ .go) (src : Array UInt8) :
    ∀ t ∈ (scan cfg src).toks, TokOK cfg.d src t := by
  obtain ⟨_, _, hseq⟩ := scan_seq cfg hd src
  exact fun t ht => ((seq_facts hseq).1 t ht).2.2.2

/-- With comment scanning on, every byte behind the optional byte-order mark belongs to a token
or is a blank, tab, newline or carriage return. -/
theorem C15_cover (cfg : Cfg) (hd : cfg.d ≠ .go) (hc : cfg.comments = true) (src : Array UInt8) :
    ∀ i, (initSt src).off ≤ i → i < src.size →
      (∃ t ∈ (scan cfg src).toks, t.pos ≤ i ∧ i < t.stop) ∨ isWsByte (byteAt src i) := by
  obtain ⟨_, _, hseq⟩ := scan_seq cfg hd src
  exact seq_cover hc hseq

/-- "exactly one token": spans of different tokens do not overlap -/
theorem C15_spans_disjoint (cfg : Cfg) (hd : cfg.d ≠ .go) (src : Array UInt8) :
    (scan cfg src).toks.Pairwise (fun a b => ∀ i, ¬(a.pos ≤ i ∧ i < a.stop ∧ b.pos ≤ i ∧ i < b.stop)) := by
  exact (C15_spans_ordered cfg hd src).2.imp (fun h i ⟨_, h2, h3, _⟩ => by omega)

end GopModel.Scan.C15
