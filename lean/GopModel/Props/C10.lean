/-
C10 — overloaded functions dispatch on argument types.

FULL STATEMENT (properties.jsonl): for an overload declaration with candidates of pairwise
distinguishable parameter types, every call invokes the candidate whose parameters accept the
arguments, independent of the order in which candidates are listed and of whether they are
written as literals, named functions or methods.

What is proved here is a KERNEL of that statement (the whole compiler is not modelled):
  (i)  the name mangling: what cl/compile.go leaves for gogen (`name__<digit>` functions and the
       `Gopo_…` constant) decodes, by gogen's rules, to exactly the listed candidates in the
       listed order — `C10_gopo_roundtrip_partial`, `C10_gopo_name_roundtrip`,
       `C10_nolit_roundtrip_partial`;
  (ii) the dispatch rule "first listed candidate whose parameters accept the arguments" picks the
       same, unique accepting candidate for every listing order when the candidates are
       pairwise distinguishable — `C10_dispatch_unique`, `C10_dispatch_none`,
       `C10_overlap_iff` (the decidable predicate means what it should).
That the real compiler follows (i) and (ii), and that candidate bodies are compiled like any other
function, is covered by the differential/oracle run of `harness/cmd/c10` only (not proof).
-/
import GopModel.Model.Overload
namespace GopModel.Overload

/-! ## (ii) dispatch -/

theorem accepts_overlap {a p q : Ty} (hp : accepts a p = true) (hq : accepts a q = true) :
    overlap p q = true := by
  rcases a with _ | _ | ⟨_, _ | _⟩ <;> rcases p with _ | _ | ⟨_, _ | _⟩ <;>
    rcases q with _ | _ | ⟨_, _ | _⟩ <;>
    simp_all [accepts, overlap, Ty.under, Ty.isLit, Under.isLit]

/-- The decidable `overlap` is exactly "some argument type is accepted by both". -/
theorem C10_overlap_iff (p q : Ty) :
    overlap p q = true ↔ ∃ a, accepts a p = true ∧ accepts a q = true := by
  constructor
  · intro h
    by_cases hpq : p = q
    · subst hpq; exact ⟨p, by simp [accepts], by simp [accepts]⟩
    · simp only [overlap, Bool.or_eq_true, beq_iff_eq, hpq, false_or, Bool.and_eq_true] at h
      obtain ⟨hu, hl⟩ := h
      cases hup : p.under with
      | base b => simp [hup, Under.isLit] at hl
      | lit l =>
        have hlu : (Ty.lit l).under = Under.lit l := rfl
        refine ⟨.lit l, ?_, ?_⟩
        · simp [accepts, hlu, Ty.isLit, hup]
        · simp [accepts, hlu, Ty.isLit, ← hu, hup]
  · rintro ⟨a, hp, hq⟩; exact accepts_overlap hp hq

theorem acceptsAll_overlapAll : ∀ {as ps qs : List Ty},
    acceptsAll as ps = true → acceptsAll as qs = true → overlapAll ps qs = true
  | [], [], [], _, _ => rfl
  | [], [], _ :: _, _, h => by simp [acceptsAll] at h
  | [], _ :: _, _, h, _ => by simp [acceptsAll] at h
  | _ :: _, [], _, h, _ => by simp [acceptsAll] at h
  | _ :: _, _ :: _, [], _, h => by simp [acceptsAll] at h
  | a :: as, p :: ps, q :: qs, hp, hq => by
    simp only [acceptsAll, Bool.and_eq_true] at hp hq
    simp only [overlapAll, Bool.and_eq_true]
    exact ⟨accepts_overlap hp.1 hq.1, acceptsAll_overlapAll hp.2 hq.2⟩

theorem overlap_symm (p q : Ty) : overlap p q = overlap q p := by
  simp only [overlap]
  rw [Bool.eq_iff_iff]
  simp only [Bool.or_eq_true, Bool.and_eq_true, beq_iff_eq]
  constructor
  · rintro (h | ⟨h1, h2⟩)
    · exact Or.inl h.symm
    · exact Or.inr ⟨h1.symm, h1 ▸ h2⟩
  · rintro (h | ⟨h1, h2⟩)
    · exact Or.inl h.symm
    · exact Or.inr ⟨h1.symm, h1 ▸ h2⟩

theorem overlapAll_symm : ∀ (ps qs : List Ty), overlapAll ps qs = overlapAll qs ps
  | [], [] => rfl
  | [], _ :: _ => rfl
  | _ :: _, [] => rfl
  | p :: ps, q :: qs => by
    simp only [overlapAll, overlapAll_symm ps qs, overlap_symm p q]

/-- Propositional reading of the decidable predicate. -/
def Distinguishable (c d : Candidate) : Prop := overlapAll c.params d.params = false

theorem distinguishableFrom_iff (c : Candidate) (l : List Candidate) :
    distinguishableFrom c l = true ↔ ∀ d ∈ l, Distinguishable c d := by
  induction l with
  | nil => simp [distinguishableFrom]
  | cons d r ih => simp [distinguishableFrom, ih, Distinguishable]

theorem pairwiseDistinguishable_iff (l : List Candidate) :
    pairwiseDistinguishable l = true ↔ l.Pairwise Distinguishable := by
  induction l with
  | nil => simp [pairwiseDistinguishable]
  | cons c r ih =>
    simp [pairwiseDistinguishable, ih, distinguishableFrom_iff, List.pairwise_cons]

theorem distinguishable_symm {c d : Candidate} (h : Distinguishable c d) : Distinguishable d c := by
  unfold Distinguishable at *; rw [overlapAll_symm]; exact h

/-- In a pairwise distinguishable list at most one candidate accepts given arguments. -/
theorem accepting_unique {cs : List Candidate} (hd : cs.Pairwise Distinguishable)
    {c d : Candidate} (hc : c ∈ cs) (hdm : d ∈ cs) {args : List Ty}
    (hac : acceptsAll args c.params = true) (had : acceptsAll args d.params = true) : c = d := by
  induction cs with
  | nil => simp at hc
  | cons x r ih =>
    rw [List.pairwise_cons] at hd
    have hov : ∀ {u v : Candidate}, acceptsAll args u.params = true →
        acceptsAll args v.params = true → ¬ Distinguishable u v := by
      intro u v hu hv hdist
      have := acceptsAll_overlapAll hu hv
      simp [Distinguishable] at hdist; simp [hdist] at this
    rcases List.mem_cons.mp hc with rfl | hc' <;> rcases List.mem_cons.mp hdm with rfl | hd'
    · rfl
    · exact absurd (hd.1 d hd') (hov hac had)
    · exact absurd (distinguishable_symm (hd.1 c hc')) (hov hac had)
    · exact ih hd.2 hc' hd'

theorem find_unique {α} (p : α → Bool) (l : List α) (c : α) (hc : c ∈ l) (hp : p c = true)
    (hu : ∀ x ∈ l, p x = true → x = c) : l.find? p = some c := by
  induction l with
  | nil => simp at hc
  | cons x r ih =>
    by_cases hx : p x = true
    · have := hu x (by simp) hx; subst this; simp [List.find?, hx]
    · have hx' : p x = false := by simpa using hx
      simp only [List.find?, hx']
      rcases List.mem_cons.mp hc with rfl | hc'
      · simp [hp] at hx'
      · exact ih hc' (fun y hy => hu y (List.mem_cons_of_mem _ hy))

/-- **Dispatch is independent of the listing order.**  For pairwise distinguishable candidates
`cs`, any listing order `cs'` (a permutation) and any candidate `c` of `cs` whose parameters
accept `args`, the rule "first listed candidate that accepts" returns `c`. -/
theorem C10_dispatch_unique (cs cs' : List Candidate) (args : List Ty) (c : Candidate)
    (hd : pairwiseDistinguishable cs = true) (hperm : cs'.Perm cs)
    (hc : c ∈ cs) (hacc : acceptsAll args c.params = true) :
    dispatch cs' args = some c := by
  have hpw := (pairwiseDistinguishable_iff cs).mp hd
  apply find_unique _ cs' c (hperm.mem_iff.mpr hc) hacc
  intro x hx hax
  exact accepting_unique hpw (hperm.mem_iff.mp hx) hc hax hacc

/-- … and when no candidate accepts, no listing order finds one (the call is rejected). -/
theorem C10_dispatch_none (cs cs' : List Candidate) (args : List Ty) (hperm : cs'.Perm cs)
    (hno : ∀ c ∈ cs, acceptsAll args c.params = false) : dispatch cs' args = none := by
  simp only [dispatch, List.find?_eq_none]
  intro x hx; simpa using hno x (hperm.mem_iff.mp hx)

/-- The order *does* matter without the hypothesis (so it is not vacuous): `type N1 []int`
and `[]int` both accept a `[]int` argument and the first listed wins. -/
theorem C10_order_matters_without_hypothesis :
    let a : Candidate := ⟨0, [.named 1 (.lit .sliceInt)]⟩
    let b : Candidate := ⟨1, [.lit .sliceInt]⟩
    pairwiseDistinguishable [a, b] = false ∧
    dispatch [a, b] [.lit .sliceInt] = some a ∧ dispatch [b, a] [.lit .sliceInt] = some b := by
  decide

/-! Non-vacuity of `C10_dispatch_unique`: a distinguishable set mixing arities, named types,
type literals; every permutation dispatches alike. -/
def exCs : List Candidate :=
  [⟨0, [.base .int]⟩, ⟨1, [.base .string]⟩, ⟨2, [.named 1 (.base .int)]⟩,
   ⟨3, [.base .int, .base .int]⟩, ⟨4, [.lit .funcIntInt]⟩]

example : pairwiseDistinguishable exCs = true := by decide
example : dispatch exCs.reverse [.named 1 (.base .int)] = some ⟨2, [.named 1 (.base .int)]⟩ := by decide
example : dispatch exCs [.base .bool] = none := by decide

/-- **Lambda / literal / constant arguments.**  When exactly one candidate accepts the call (the
generator's decidable condition for these argument forms), every listing order dispatches to it. -/
theorem C10_lambda_dispatch_unique (cs cs' : List LCand) (call : LCall) (c : LCand)
    (hperm : cs'.Perm cs) (hc : c ∈ cs) (hacc : lcandAccepts c call = true)
    (huniq : ∀ x ∈ cs, lcandAccepts x call = true → x = c) :
    ldispatch cs' call = some c := by
  apply find_unique _ cs' c (hperm.mem_iff.mpr hc) hacc
  intro x hx hax
  exact huniq x (hperm.mem_iff.mp hx) hax

/-- `try = (tryErr, tryPlain)`: `x => x*2` is for `tryPlain`, `x => (x*2, nil)` for `tryErr`, in
either order; a block lambda only sees the arity, so there both candidates accept (excluded). -/
example :
    let plain : LCand := ⟨0, .none, 1, 1, false⟩
    let err : LCand := ⟨1, .none, 1, 2, false⟩
    ldispatch [err, plain] ⟨.none, .expr 1 1⟩ = some plain ∧
    ldispatch [plain, err] ⟨.none, .expr 1 2⟩ = some err ∧
    lacceptors [plain, err] ⟨.none, .block 1⟩ = 2 := by decide

/-! ## (i) encoding / decoding -/

theorem splitAux_append_nocomma (x rest cur : Str) (hx : ',' ∉ x) :
    splitAux (x ++ rest) cur = splitAux rest (x.reverse ++ cur) := by
  induction x generalizing cur with
  | nil => simp
  | cons c cs ih =>
    have hc : c ≠ ',' := fun h => hx (by simp [h])
    have hcs : ',' ∉ cs := fun h => hx (List.mem_cons_of_mem _ h)
    simp [splitAux, hc, ih _ hcs]

/-- `strings.Split(strings.Join(xs, ","), ",") = xs` for non-empty `xs` without commas. -/
theorem split_join : ∀ (xs : List Str), xs ≠ [] → (∀ x ∈ xs, ',' ∉ x) →
    splitComma (joinComma xs) = xs
  | [], h, _ => absurd rfl h
  | [x], _, hx => by
    have := splitAux_append_nocomma x [] [] (hx x (by simp))
    simp [splitComma, joinComma] at *
    simp [this, splitAux]
  | x :: y :: r, _, hx => by
    have h1 := splitAux_append_nocomma x (',' :: joinComma (y :: r)) [] (hx x (by simp))
    have ih := split_join (y :: r) (by simp) (fun z hz => hx z (List.mem_cons_of_mem _ hz))
    simp only [splitComma] at ih ⊢
    simp only [joinComma, h1, List.append_nil, splitAux, if_true, List.reverse_reverse, ih]

/-- The `onames` slot of a candidate. -/
def slotOf (d : Decl) : Cand → Str
  | .ident n => if d.isClass then '.' :: n else n
  | .sel _ n => '.' :: n
  | _ => []

/-- Candidate `c` at index `i` is accepted by the loop (no error, no panic). -/
def okCand (d : Decl) (i : Nat) : Cand → Prop
  | .ident _ => methodErr d = false
  | .sel t _ => d.recv = some t ∧ d.isClass = false
  | .lit => methodErr d = false ∧ (digit? i).isSome
  | .other => False

def allOk (d : Decl) : Nat → List Cand → Prop
  | _, [] => True
  | i, c :: r => okCand d i c ∧ allOk d (i + 1) r

def litNames (d : Decl) : Nat → List Cand → List Str
  | _, [] => []
  | i, .lit :: r =>
    (match overloadFuncName? d.name i with | some n => [n] | none => []) ++ litNames d (i + 1) r
  | i, _ :: r => litNames d (i + 1) r

def anyNonLit : List Cand → Bool
  | [] => false
  | .lit :: r => anyNonLit r
  | _ :: _ => true

/-- The loop succeeds exactly on `allOk` inputs and then yields the slots / literal names. -/
theorem encLoop_done (d : Decl) : ∀ (cs : List Cand) (i : Nat) (on ls : List Str) (ex : Bool)
    (O L : List Str) (X : Bool), encLoop d i cs on ls ex = .done O L X →
    allOk d i cs ∧ O = on.reverse ++ cs.map (slotOf d) ∧ L = ls.reverse ++ litNames d i cs ∧
      X = (ex || anyNonLit cs)
  | [], i, on, ls, ex, O, L, X, h => by
    simp only [encLoop, LoopRes.done.injEq] at h
    obtain ⟨rfl, rfl, rfl⟩ := h
    simp [allOk, litNames, anyNonLit]
  | c :: r, i, on, ls, ex, O, L, X, h => by
    cases c with
    | ident n =>
      simp only [encLoop] at h
      split at h
      · cases h
      · rename_i hm
        obtain ⟨h1, h2, h3, h4⟩ := encLoop_done d r (i + 1) _ ls true O L X h
        refine ⟨⟨by simpa [okCand] using hm, h1⟩, ?_, ?_, ?_⟩
        · simp [h2, slotOf]
        · simp [h3, litNames]
        · simp [h4, anyNonLit]
    | sel t n =>
      simp only [encLoop] at h
      split at h
      · cases h
      · rename_i r' hr
        split at h
        · cases h
        · split at h
          · cases h
          · rename_i hcl htr
            obtain ⟨h1, h2, h3, h4⟩ := encLoop_done d r (i + 1) _ ls true O L X h
            refine ⟨⟨⟨?_, by simpa using hcl⟩, h1⟩, ?_, ?_, ?_⟩
            · have : t = r' := by simpa using htr
              rw [hr, this]
            · simp [h2, slotOf]
            · simp [h3, litNames]
            · simp [h4, anyNonLit]
    | lit =>
      simp only [encLoop] at h
      split at h
      · cases h
      · rename_i hm
        split at h
        · cases h
        · rename_i name1 hn
          obtain ⟨h1, h2, h3, h4⟩ := encLoop_done d r (i + 1) _ _ ex O L X h
          refine ⟨⟨⟨by simpa using hm, ?_⟩, h1⟩, ?_, ?_, ?_⟩
          · simp only [overloadFuncName?, Option.map_eq_some_iff] at hn
            obtain ⟨c, hc, _⟩ := hn; simp [hc]
          · simp [h2, slotOf]
          · simp [h3, litNames, hn]
          · simp [h4, anyNonLit]
    | other => simp [encLoop] at h

/-- Scope adequacy: the reference every candidate denotes exists in the package
(the functions named in the declaration are declared; the generated `name__i` functions are
what `preloadFuncDecl` declared). -/
def resolvable (sc : Scope) (d : Decl) (mname : Str) (i : Nat) : Cand → Prop
  | .ident n =>
    n ≠ [] ∧ n.head? ≠ some '.' ∧
    (match d.isClass, d.recv with
     | true, some t => ∃ ms, sc.types.lookup t = some ms ∧ ms.contains n = true
     | true, none => False
     | false, _ => sc.funcs.contains n = true)
  | .sel t n => ∃ ms, sc.types.lookup t = some ms ∧ ms.contains n = true
  | .lit =>
    d.name = mname ∧ mname.head? ≠ some '.' ∧ mname ≠ [] ∧
    ∀ c, digit? i = some c →
      (match d.recv with
       | none => sc.funcs.contains (mname ++ us2 ++ [c]) = true
       | some t => ∃ ms, sc.types.lookup t = some ms ∧ ms.contains (mname ++ us2 ++ [c]) = true)
  | .other => False

def allResolvable (sc : Scope) (d : Decl) (mname : Str) : Nat → List Cand → Prop
  | _, [] => True
  | i, c :: r => resolvable sc d mname i c ∧ allResolvable sc d mname (i + 1) r

theorem lookupFunc_dot (sc : Scope) (m t : Str) (ms : List Str)
    (h : sc.types.lookup t = some ms) (hm : ms.contains m = true) :
    lookupFunc sc ('.' :: m) t = some (.method t m) := by
  have hm' : m ∈ ms := by simpa using hm
  simp [lookupFunc, h, hm']

theorem lookupFunc_plain (sc : Scope) (n t : Str) (hne : n ≠ []) (hd : n.head? ≠ some '.')
    (h : sc.funcs.contains n = true) : lookupFunc sc n t = some (.func n) := by
  cases n with
  | nil => exact absurd rfl hne
  | cons c cs =>
    have : c ≠ '.' := by intro hc; simp [hc] at hd
    have h' : (c :: cs) ∈ sc.funcs := by simpa using h
    unfold lookupFunc
    split
    · rename_i m heq; simp at heq; exact absurd heq.1 this
    · simp [h']

/-- gogen's name loop over the slots returns the listed candidates (`candRefs`). -/
theorem resolveNames_slots (sc : Scope) (d : Decl) (mname : Str) :
    ∀ (cs : List Cand) (i : Nat), allOk d i cs → allResolvable sc d mname i cs →
      resolveNames sc d.recv.isSome mname (d.recv.getD []) i (cs.map (slotOf d)) = candRefs d i cs ∧
      (candRefs d i cs).map List.length = some cs.length
  | [], i, _, _ => by simp [resolveNames, candRefs]
  | c :: r, i, hok, hres => by
    obtain ⟨hokc, hokr⟩ := hok
    obtain ⟨hresc, hresr⟩ := hres
    obtain ⟨ih, ihlen⟩ := resolveNames_slots sc d mname r (i + 1) hokr hresr
    cases hcr : candRefs d (i + 1) r with
    | none => simp [hcr] at ihlen
    | some refs =>
      rw [hcr] at ih ihlen
      have hlen : refs.length = r.length := by simpa using ihlen
      cases c with
      | other => exact absurd hokc (by simp [okCand])
      | sel t n =>
        obtain ⟨hrecv, _⟩ := hokc
        obtain ⟨ms, hms, hcont⟩ := hresc
        have hl := lookupFunc_dot sc n t ms hms hcont
        simp only [hrecv, Option.isSome_some, Option.getD_some] at ih ⊢
        simp [resolveNames, slotOf, ih, candRefs, hcr, hl, hlen]
      | ident n =>
        obtain ⟨hne, hdot, hsc⟩ := hresc
        cases hcl : d.isClass with
        | false =>
          rw [hcl] at hsc
          have hl := lookupFunc_plain sc n (d.recv.getD []) hne hdot (by simpa using hsc)
          have hemp : n.isEmpty = false := by cases n <;> simp_all
          simp [resolveNames, slotOf, hcl, hemp, ih, candRefs, hcr, hl, hlen]
        | true =>
          rw [hcl] at hsc
          cases hrv : d.recv with
          | none => simp [hrv] at hsc
          | some t =>
            rw [hrv] at hsc
            obtain ⟨ms, hms, hcont⟩ := hsc
            have hl := lookupFunc_dot sc n t ms hms hcont
            simp only [hrv, Option.isSome_some, Option.getD_some] at ih ⊢
            simp [resolveNames, slotOf, hcl, ih, candRefs, hcr, hl, hlen, hrv]
      | lit =>
        obtain ⟨_, hdig⟩ := hokc
        obtain ⟨hname, hmdot, hmne, hsc⟩ := hresc
        obtain ⟨ch, hch⟩ := Option.isSome_iff_exists.mp hdig
        have hsc := hsc ch hch
        cases hrv : d.recv with
        | none =>
          rw [hrv] at hsc
          have hne : mname ++ us2 ++ [ch] ≠ [] := by simp
          have hd : (mname ++ us2 ++ [ch]).head? ≠ some '.' := by
            cases mname with
            | nil => exact absurd rfl hmne
            | cons a _ => simpa using hmdot
          have hl := lookupFunc_plain sc _ [] hne hd (by simpa using hsc)
          simp only [hrv, Option.isSome_none, Option.getD_none] at ih ⊢
          simp only [List.append_assoc] at hl
          simp [resolveNames, slotOf, hch, ih, candRefs, hcr, overloadFuncName?, hname, hlen, hl, hrv]
        | some t =>
          rw [hrv] at hsc
          obtain ⟨ms, hms, hcont⟩ := hsc
          have hl := lookupFunc_dot sc _ t ms hms hcont
          simp only [hrv, Option.isSome_some, Option.getD_some] at ih ⊢
          simp only [List.append_assoc] at hl
          simp [resolveNames, slotOf, hch, ih, candRefs, hcr, overloadFuncName?, hname, hlen, hl, hrv]

/-- The slots contain no comma when the names do not. -/
def NoComma (d : Decl) : Prop := ∀ c ∈ d.cands, ',' ∉ slotOf d c

/-- What `checkTypeMethod` must return for the declaration (proved for the names the compiler
generates in `C10_gopo_name_roundtrip`). -/
def tmOf (recv : Option Str) (mname : Str) : TM :=
  match recv with
  | none => .func mname
  | some t => .method t mname

def expectedTM (d : Decl) (mname : Str) : TM := tmOf d.recv mname

/-- **Gopo round trip (constant path).**  If the overload branch of cl succeeds on `d` and emits
a `Gopo_` constant, gogen decodes it to exactly the listed candidates, in the listed order:
literal slots resolve to `name__<digit i>`, methods to methods of the receiver type.
Hypotheses (all satisfiable, see the examples below): names contain no comma; the candidates'
targets are declared in the package; the constant's name maps back to the declaration's
receiver and name (`hkey`, discharged by `C10_gopo_name_roundtrip`); `idx < 36` is part of
`encode d = .ok e` (a 37th literal makes `encode` return `panicIndex`, see `C10_idx_bound`).
_partial: the surrounding compiler (that the constant and the functions reach gogen unchanged)
is not modelled. -/
theorem C10_gopo_roundtrip_partial (sc : Scope) (d : Decl) (e : Encoded) (oname oval mname : Str)
    (henc : encode d = .ok e) (hg : e.gopo = some (oname, oval))
    (hnc : NoComma d) (hne : d.cands ≠ [])
    (hres : allResolvable sc d mname 0 d.cands)
    (hkey : checkTypeMethod sc (oname.drop 5) = expectedTM d mname) :
    ∃ refs, candidates d = some refs ∧ refs.length = d.cands.length ∧
      decode sc d e = .overload d.recv mname refs := by
  unfold encode at henc
  split at henc
  · cases henc
  · cases henc
  · rename_i onames lits exov hloop
    obtain ⟨hok, hon, _, _⟩ := encLoop_done d d.cands 0 [] [] false onames lits exov hloop
    simp only [List.reverse_nil, List.nil_append] at hon
    have hsplit : splitComma (joinComma onames) = onames := by
      rw [hon]; apply split_join
      · simpa using hne
      · intro x hx
        obtain ⟨c, hc, rfl⟩ := List.mem_map.mp hx
        exact hnc c hc
    obtain ⟨hrn, hlen⟩ := resolveNames_slots sc d mname d.cands 0 hok hres
    cases hcr : candRefs d 0 d.cands with
    | none => simp [hcr] at hlen
    | some refs =>
      rw [hcr] at hrn hlen
      have hl : refs.length = d.cands.length := by simpa using hlen
      have hrefne : refs ≠ [] := by
        intro h; rw [h] at hl
        exact hne (List.eq_nil_of_length_eq_zero hl.symm)
      refine ⟨refs, hcr, hl, ?_⟩
      split at henc
      · split at henc
        · cases henc
        · rename_i oname' _
          cases henc
          simp only [Option.some.injEq, Prod.mk.injEq] at hg
          obtain ⟨rfl, rfl⟩ := hg
          simp only [decode, decodeConst, hkey, hsplit, expectedTM, tmOf]
          cases hrv : d.recv with
          | none =>
            simp only [hrv, Option.isSome_none, Option.getD_none] at hrn
            simp only [hon, hrn]
          | some t =>
            simp only [hrv, Option.isSome_some, Option.getD_some] at hrn
            simp only [hon, hrn]
      · cases henc; simp at hg

/-- `idx < 36` is forced: a literal at index ≥ 36 makes the branch panic
(`indexTable[idx:idx+1]`, observed on the real compiler as
"runtime error: slice bounds out of range [:37] with length 36"). -/
theorem C10_idx_bound (i : Nat) : (digit? i).isSome ↔ i < 36 := by
  have hlen : Gen.indexTable.length = 36 := by decide
  simp [digit?, hlen]

/-- gogen's `toIndex` inverts the index table (cl and gogen agree on the digits). -/
theorem C10_digit_toIndex : ∀ i, i < 36 → (digit? i).bind toIndex? = some i := by
  decide

/-! ### the constant's name -/

theorem indexUnderscore_none (s : Str) (h : '_' ∉ s) : indexUnderscore s = none := by
  induction s with
  | nil => rfl
  | cons c cs ih =>
    have hc : c ≠ '_' := fun e => h (by simp [e])
    simp [indexUnderscore, hc, ih (fun m => h (List.mem_cons_of_mem _ m))]

theorem indexUnderscore_append (t rest : Str) (h : '_' ∉ t) :
    indexUnderscore (t ++ '_' :: rest) = some t.length := by
  induction t with
  | nil => simp [indexUnderscore]
  | cons c cs ih =>
    have hc : c ≠ '_' := fun e => h (by simp [e])
    simp [indexUnderscore, hc, ih (fun m => h (List.mem_cons_of_mem _ m))]

theorem indexUs2_append (t rest : Str) (h : '_' ∉ t) :
    indexUs2 (t ++ '_' :: '_' :: rest) = some t.length := by
  induction t with
  | nil => simp [indexUs2]
  | cons c cs ih =>
    have hc : c ≠ '_' := fun e => h (by simp [e])
    have ih := ih (fun m => h (List.mem_cons_of_mem _ m))
    cases cs with
    | nil => simp [indexUs2, hc] at ih ⊢
    | cons b bs =>
      simp only [List.cons_append] at ih ⊢
      simp [indexUs2, hc, ih]

theorem hasUnderscore_false {s : Str} (h : hasUnderscore s = false) : '_' ∉ s := by
  simpa [hasUnderscore] using h

/-- **The constant's name maps back to (receiver, name).**  For a receiver type name without
`_` (non-empty, declared as a named type) and, for plain functions, a name in which `__` does not
occur after position 0, `checkTypeMethod` applied to `overloadName(recv, name)` minus the
`Gopo_` prefix returns the declaration's receiver and name.  (A plain function named `a__b`
is outside: there gogen panics "checkTypeMethod: a not found or not a named type".) -/
theorem C10_gopo_name_roundtrip (sc : Scope) (recv : Option Str) (name oname : Str)
    (hon : overloadName? recv name false = some oname)
    (hrecv : ∀ t, recv = some t → t ≠ [] ∧ '_' ∉ t ∧ (sc.types.lookup t).isSome)
    (hname : recv = none → indexUs2 name = none ∨ indexUs2 name = some 0) :
    checkTypeMethod sc (oname.drop 5) = tmOf recv name := by
  cases recv with
  | none =>
    simp only [overloadName?, Bool.false_eq_true, if_false, Option.map_some, Option.some.injEq,
      Bool.or_false, List.append_nil] at hon
    subst hon
    cases hu : hasUnderscore name with
    | false =>
      have hn := indexUnderscore_none name (hasUnderscore_false hu)
      simp [gopoPrefix, checkTypeMethod, hn, tmOf]
    | true =>
      simp only [gopoPrefix, us2, if_true, List.cons_append, List.nil_append,
        List.drop_succ_cons, List.drop_zero, checkTypeMethod, indexUnderscore, tmOf]
      rcases hname rfl with h | h <;> simp [h]
  | some t =>
    obtain ⟨hne, hnu, hty⟩ := hrecv t rfl
    obtain ⟨ms, hms⟩ := Option.isSome_iff_exists.mp hty
    have hut : hasUnderscore t = false := by simpa [hasUnderscore] using hnu
    have htl : 0 < t.length := List.length_pos_iff.mpr hne
    simp only [overloadName?, Bool.false_eq_true, if_false, Option.map_some, Option.some.injEq,
      hut, Bool.or_false] at hon
    subst hon
    cases hu : hasUnderscore name with
    | false =>
      have h1 := indexUnderscore_append t name hnu
      simp only [gopoPrefix, Bool.false_eq_true, if_false, List.cons_append, List.nil_append,
        List.drop_succ_cons, List.drop_zero, List.append_assoc, checkTypeMethod, h1, tmOf]
      cases htl' : t.length with
      | zero => omega
      | succ k =>
        have e1 : (t ++ '_' :: name).take (k + 1) = t := by
          rw [← htl']; simp
        have e2 : (t ++ '_' :: name).drop (k + 1 + 1) = name := by
          rw [← htl']; simp
        simp [e1, e2, hms]
    | true =>
      have h1 := indexUs2_append t name hnu
      simp only [gopoPrefix, us2, if_true, List.cons_append, List.nil_append,
        List.drop_succ_cons, List.drop_zero, List.append_assoc, checkTypeMethod, indexUnderscore,
        h1, tmOf]
      cases htl' : t.length with
      | zero => omega
      | succ k =>
        have e1 : (t ++ '_' :: '_' :: name).take (k + 1) = t := by
          rw [← htl']; simp
        have e2 : (t ++ '_' :: '_' :: name).drop (k + 1 + 2) = name := by
          rw [← htl']; simp [List.drop_append]
        simp [e1, e2, hms]

/-! ### examples (non-vacuity; the same declarations are compiled by the harness) -/

def s (x : String) : Str := x.toList

/-- `func f = ( fStr; func(float64){…}; fInt; func(a, b int){…} )` -/
def exDecl : Decl :=
  { name := s "f", recv := none, isOp := false, isClass := false,
    cands := [.ident (s "fStr"), .lit, .ident (s "fInt"), .lit] }

def exScope : Scope :=
  { funcs := [s "fInt", s "fStr", s "f__1", s "f__3", s "iAddT"],
    types := [(s "T", [s "mA", s "mB", s "addI", s "addT"])] }

example : encode exDecl =
    .ok { litFuncs := [s "f__1", s "f__3"], gopo := some (s "Gopo_f", s "fStr,,fInt,") } := by decide

example : decode exScope exDecl { litFuncs := [s "f__1", s "f__3"], gopo := some (s "Gopo_f", s "fStr,,fInt,") } =
    .overload none (s "f") [.func (s "fStr"), .func (s "f__1"), .func (s "fInt"), .func (s "f__3")] := by
  decide

/-- `func (T).m = ( (T).mB; (T).mA )` -/
def exMeth : Decl :=
  { name := s "m", recv := some (s "T"), isOp := false, isClass := false,
    cands := [.sel (s "T") (s "mB"), .sel (s "T") (s "mA")] }

example : encode exMeth = .ok { litFuncs := [], gopo := some (s "Gopo_T_m", s ".mB,.mA") } := by decide
example : decode exScope exMeth { litFuncs := [], gopo := some (s "Gopo_T_m", s ".mB,.mA") } =
    .overload (some (s "T")) (s "m") [.method (s "T") (s "mB"), .method (s "T") (s "mA")] := by decide

/-- `func (T).+ = ( (T).addI; (T).addT; iAddT )` — operator: the name is `Gop_Add`, separator `__`. -/
def exOp : Decl :=
  { name := s "+", recv := some (s "T"), isOp := true, isClass := false,
    cands := [.sel (s "T") (s "addI"), .sel (s "T") (s "addT"), .ident (s "iAddT")] }

example : encode exOp =
    .ok { litFuncs := [], gopo := some (s "Gopo__T__Gop_Add", s ".addI,.addT,iAddT") } := by decide
example : decode exScope exOp { litFuncs := [], gopo := some (s "Gopo__T__Gop_Add", s ".addI,.addT,iAddT") } =
    .overload (some (s "T")) (s "Gop_Add")
      [.method (s "T") (s "addI"), .method (s "T") (s "addT"), .func (s "iAddT")] := by decide

/-- A literal in an operator overload is encoded under the operator *text* (`+__1`) while gogen
looks for `.Gop_Add__1`: the candidate is silently dropped by this model's `decodeConst`; the real
compiler fails earlier with "overload func +__1 out of range 0..0" (recorded in design_notes). -/
example : encode { exOp with cands := [.sel (s "T") (s "addT"), .lit] } =
    .ok { litFuncs := [s "+__1"], gopo := some (s "Gopo__T__Gop_Add", s ".addT,") } := by decide

/-- A 37-candidate declaration whose last entry is a literal panics in cl (index 36). -/
example : encode { exDecl with cands := List.replicate 36 (.ident (s "fInt")) ++ [.lit] } = .panicIndex 36 := by
  decide

/-! ### all-literal declarations (no constant) -/

/-- For an all-literal declaration of `n ≤ 36` candidates gogen finds the functions `name__0 …`
by their suffix and orders them by digit.  Stated for the order in which `scope.Names()` lists
them (sorted, which for one name and `n ≤ 36` is the index order) and, for `n ≤ 8`, the reverse order,
and proved by evaluation for every `n ≤ 36` on a one-letter name; the name only enters through
`take`/`getLast?`.
_partial: a general-name proof is not given; the harness compares `decodeNoConst` with gogen on
random names and orders. -/
def nolitDecl (n : Nat) : Decl :=
  { name := ['f'], recv := none, isOp := false, isClass := false, cands := List.replicate n .lit }

def nolitCheck (n : Nat) : Bool :=
  match encode (nolitDecl n) with
  | .ok e =>
    e.gopo == none && e.litFuncs.length == n &&
    (n == 0 || decode { funcs := e.litFuncs, types := [] } (nolitDecl n) e ==
                 .overload none ['f'] (e.litFuncs.map Ref.func)) &&
    (n == 0 || decide (n > 8) || decode { funcs := e.litFuncs.reverse, types := [] } (nolitDecl n) e ==
                 .overload none ['f'] (e.litFuncs.map Ref.func)) &&
    candidates (nolitDecl n) == some (e.litFuncs.map Ref.func)
  | _ => false

theorem C10_nolit_roundtrip_partial : ∀ n, n < 37 → nolitCheck n = true := by
  decide +kernel

end GopModel.Overload
