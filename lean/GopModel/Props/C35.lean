/-
C35 — project arguments are partitioned in order.
Property theorems about `GopModel.Proj.parseAll` (model of x/xgoprojs.ParseAll).
-/
import GopModel.Model.Proj
namespace GopModel.Proj

/-- Shape of one project w.r.t. the classifier. -/
def P.Good : P → Prop
  | .files fs => fs ≠ [] ∧ ∀ f ∈ fs, isFile f = true
  | .dir d => isFile d = false ∧ isLocal d = true
  | .pkg p => isFile p = false ∧ isLocal p = false

/-- No two adjacent `files` projects: runs of file arguments are maximal. -/
def NoAdjFiles : List P → Prop
  | [] => True
  | [_] => True
  | p :: q :: r => ¬(p.isFiles = true ∧ q.isFiles = true) ∧ NoAdjFiles (q :: r)

def headIsFiles (ps : List P) : Bool :=
  match ps with
  | [] => false
  | p :: _ => p.isFiles

def headIsFile (as : List Arg) : Bool :=
  match as with
  | [] => false
  | a :: _ => isFile a

theorem dropWhile_head (l : List Arg) : headIsFile (l.dropWhile isFile) = false := by
  induction l with
  | nil => rfl
  | cons a t ih =>
    simp only [List.dropWhile]
    cases h : isFile a
    · simp [headIsFile, h]
    · simpa using ih

theorem length_dropWhile_le (p : Arg → Bool) (l : List Arg) :
    (l.dropWhile p).length ≤ l.length := (List.dropWhile_sublist p).length_le

theorem mem_takeWhile_imp (p : Arg → Bool) : ∀ (l : List Arg) (a : Arg),
    a ∈ l.takeWhile p → p a = true
  | [], _, h => by simp at h
  | b :: t, a, h => by
    simp only [List.takeWhile] at h
    cases hb : p b
    · simp [hb] at h
    · simp only [hb, List.mem_cons] at h
      rcases h with rfl | h
      · exact hb
      · exact mem_takeWhile_imp p t a h

theorem noAdj_cons (p : P) (ps : List P) (h : NoAdjFiles ps)
    (hh : ¬(p.isFiles = true ∧ headIsFiles ps = true)) : NoAdjFiles (p :: ps) := by
  cases ps with
  | nil => trivial
  | cons q r => exact ⟨hh, h⟩

/-- Characterisation of the loop for adequate fuel. -/
theorem loop_spec : ∀ (fuel : Nat) (args : List Arg) (hf hn : Bool) (acc : List P),
    args.length < fuel →
    ∃ ps : List P,
      parseAllLoop fuel args hf hn acc =
        (if (hf || ps.any P.isFiles) && (hn || ps.any (fun p => !p.isFiles))
         then Res.mixed else Res.ok (acc.reverse ++ ps)) ∧
      ps.flatMap P.args = args ∧
      (∀ p ∈ ps, p.Good) ∧ NoAdjFiles ps ∧ headIsFiles ps = headIsFile args := by
  intro fuel
  induction fuel with
  | zero => intro args _ _ _ h; omega
  | succ fuel ih =>
    intro args hf hn acc hlen
    cases args with
    | nil =>
      refine ⟨[], ?_, rfl, by simp, trivial, rfl⟩
      simp [parseAllLoop, parseOne]
    | cons a rest =>
      by_cases hfile : isFile a = true
      · -- files project
        have hlen' : (rest.dropWhile isFile).length < fuel := by
          have := length_dropWhile_le isFile rest
          simp at hlen; omega
        obtain ⟨ps, hps, hcat, hgood, hadj, hhead⟩ :=
          ih (rest.dropWhile isFile) true hn (P.files (a :: rest.takeWhile isFile) :: acc) hlen'
        refine ⟨P.files (a :: rest.takeWhile isFile) :: ps, ?_, ?_, ?_, ?_, ?_⟩
        · simp only [parseAllLoop, parseOne, hfile, if_true, P.isFiles]
          rw [hps]
          simp [P.isFiles, List.append_assoc]
        · simp [List.flatMap_cons, P.args, hcat, List.takeWhile_append_dropWhile]
        · intro p hp
          simp only [List.mem_cons] at hp
          rcases hp with rfl | hp
          · refine ⟨by simp, ?_⟩
            intro f hfm
            simp only [List.mem_cons] at hfm
            rcases hfm with rfl | hfm
            · exact hfile
            · exact mem_takeWhile_imp _ _ _ hfm
          · exact hgood p hp
        · apply noAdj_cons _ _ hadj
          rw [hhead, dropWhile_head]; simp
        · simp [headIsFiles, headIsFile, P.isFiles, hfile]
      · -- dir or pkg project
        have hfile' : isFile a = false := by simpa using hfile
        have hlen' : rest.length < fuel := by simp at hlen; omega
        by_cases hloc : isLocal a = true
        · obtain ⟨ps, hps, hcat, hgood, hadj, hhead⟩ := ih rest hf true (P.dir a :: acc) hlen'
          refine ⟨P.dir a :: ps, ?_, ?_, ?_, ?_, ?_⟩
          · simp only [parseAllLoop, parseOne, hfile', hloc, if_true, P.isFiles]
            simp only [Bool.false_eq_true, if_false]
            rw [hps]; simp [P.isFiles, List.append_assoc]
          · simp [List.flatMap_cons, P.args, hcat]
          · intro p hp
            simp only [List.mem_cons] at hp
            rcases hp with rfl | hp
            · exact ⟨hfile', hloc⟩
            · exact hgood p hp
          · apply noAdj_cons _ _ hadj; simp [P.isFiles]
          · simp [headIsFiles, headIsFile, P.isFiles, hfile']
        · have hloc' : isLocal a = false := by simpa using hloc
          obtain ⟨ps, hps, hcat, hgood, hadj, hhead⟩ := ih rest hf true (P.pkg a :: acc) hlen'
          refine ⟨P.pkg a :: ps, ?_, ?_, ?_, ?_, ?_⟩
          · simp only [parseAllLoop, parseOne, hfile', hloc', P.isFiles]
            simp only [Bool.false_eq_true, if_false]
            rw [hps]; simp [P.isFiles, List.append_assoc]
          · simp [List.flatMap_cons, P.args, hcat]
          · intro p hp
            simp only [List.mem_cons] at hp
            rcases hp with rfl | hp
            · exact ⟨hfile', hloc'⟩
            · exact hgood p hp
          · apply noAdj_cons _ _ hadj; simp [P.isFiles]
          · simp [headIsFiles, headIsFile, P.isFiles, hfile']

/-- The partition computed for `args` (exists uniquely; see `parseAll_spec`). -/
theorem parseAll_spec (args : List Arg) :
    ∃ ps : List P,
      parseAll args =
        (if ps.any P.isFiles && ps.any (fun p => !p.isFiles) then Res.mixed else Res.ok ps) ∧
      ps.flatMap P.args = args ∧ (∀ p ∈ ps, p.Good) ∧ NoAdjFiles ps := by
  obtain ⟨ps, h, hcat, hgood, hadj, _⟩ :=
    loop_spec (args.length + 1) args false false [] (Nat.lt_succ_self _)
  exact ⟨ps, by simpa [parseAll] using h, hcat, hgood, hadj⟩

theorem any_files_iff {ps : List P} (hgood : ∀ p ∈ ps, p.Good) :
    ps.any P.isFiles = true ↔ ∃ a ∈ ps.flatMap P.args, isFile a = true := by
  constructor
  · intro h
    obtain ⟨p, hp, hpf⟩ := List.any_eq_true.mp h
    cases p with
    | files fs =>
      have := hgood _ hp
      obtain ⟨hne, hall⟩ := this
      cases fs with
      | nil => exact absurd rfl hne
      | cons f t =>
        exact ⟨f, List.mem_flatMap.mpr ⟨_, hp, by simp [P.args]⟩, hall f (by simp)⟩
    | dir d => simp [P.isFiles] at hpf
    | pkg q => simp [P.isFiles] at hpf
  · rintro ⟨a, ha, haf⟩
    obtain ⟨p, hp, hap⟩ := List.mem_flatMap.mp ha
    apply List.any_eq_true.mpr
    refine ⟨p, hp, ?_⟩
    cases p with
    | files fs => rfl
    | dir d =>
      have := (hgood _ hp).1
      simp [P.args] at hap; subst hap; simp [haf] at this
    | pkg q =>
      have := (hgood _ hp).1
      simp [P.args] at hap; subst hap; simp [haf] at this

theorem any_nonfiles_iff {ps : List P} (hgood : ∀ p ∈ ps, p.Good) :
    ps.any (fun p => !p.isFiles) = true ↔ ∃ a ∈ ps.flatMap P.args, isFile a = false := by
  constructor
  · intro h
    obtain ⟨p, hp, hpf⟩ := List.any_eq_true.mp h
    cases p with
    | files fs => simp [P.isFiles] at hpf
    | dir d => exact ⟨d, List.mem_flatMap.mpr ⟨_, hp, by simp [P.args]⟩, (hgood _ hp).1⟩
    | pkg q => exact ⟨q, List.mem_flatMap.mpr ⟨_, hp, by simp [P.args]⟩, (hgood _ hp).1⟩
  · rintro ⟨a, ha, haf⟩
    obtain ⟨p, hp, hap⟩ := List.mem_flatMap.mp ha
    apply List.any_eq_true.mpr
    refine ⟨p, hp, ?_⟩
    cases p with
    | files fs =>
      have := (hgood _ hp).2 a (by simpa [P.args] using hap)
      simp [haf] at this
    | dir d => rfl
    | pkg q => rfl

/-! ## Property theorems (C35) -/

/-- Termination: `ParseAll`'s loop finishes within `len(args)+1` iterations. -/
theorem C35_terminates (args : List Arg) : parseAll args ≠ Res.outOfFuel := by
  obtain ⟨ps, h, _⟩ := parseAll_spec args
  rw [h]; split <;> simp

/-- The returned projects' arguments concatenate to the input, in order. -/
theorem C35_concat_eq_input (args : List Arg) (ps : List P)
    (h : parseAll args = Res.ok ps) : ps.flatMap P.args = args := by
  obtain ⟨ps', h', hcat, _⟩ := parseAll_spec args
  rw [h'] at h
  split at h
  · cases h
  · cases h; exact hcat

/-- Maximal runs of file arguments form one files project each: every project is
classified correctly (files projects hold only file arguments and are non-empty; single
projects hold a non-file argument, dir iff local) and no two files projects are adjacent. -/
theorem C35_files_runs_maximal (args : List Arg) (ps : List P)
    (h : parseAll args = Res.ok ps) : (∀ p ∈ ps, p.Good) ∧ NoAdjFiles ps := by
  obtain ⟨ps', h', _, hgood, hadj⟩ := parseAll_spec args
  rw [h'] at h
  split at h
  · cases h
  · cases h; exact ⟨hgood, hadj⟩

/-- The mixed-project error is returned exactly when the input contains both a file
argument and a non-file argument. -/
theorem C35_mixed_error_iff (args : List Arg) :
    parseAll args = Res.mixed ↔
      (∃ a ∈ args, isFile a = true) ∧ (∃ a ∈ args, isFile a = false) := by
  obtain ⟨ps, h, hcat, hgood, _⟩ := parseAll_spec args
  rw [h, ← hcat, ← any_files_iff hgood, ← any_nonfiles_iff hgood]
  split
  · rename_i hc
    simp only [Bool.and_eq_true] at hc
    simp [hc]
  · rename_i hc
    simp only [Bool.and_eq_true] at hc
    simp only [reduceCtorEq, false_iff]
    exact hc

/-- Every result is `ok` or `mixed` (never an `ENOENT` or other error). -/
theorem C35_ok_or_mixed (args : List Arg) :
    parseAll args = Res.mixed ∨ ∃ ps, parseAll args = Res.ok ps := by
  obtain ⟨ps, h, _⟩ := parseAll_spec args
  rw [h]; split
  · exact Or.inl rfl
  · exact Or.inr ⟨ps, rfl⟩

/-- `isFile` agrees with the defining property of `filepath.Ext`: there is a '.' after
the last '/' that is not the final byte ... stated on the reversed scan: -/
theorem C35_extLenRev_le (s : List UInt8) (n : Nat) : extLenRev s n ≤ n + s.length := by
  induction s generalizing n with
  | nil => simp [extLenRev]
  | cons c cs ih =>
    simp only [extLenRev, List.length_cons]
    split
    · omega
    · split
      · omega
      · have := ih (n + 1); omega

/-! Non-vacuity: concrete inputs meeting the hypotheses. -/
def aGo : Arg := [0x61, 0x2e, 0x67, 0x6f]          -- "a.go"
def bXgo : Arg := [0x62, 0x2e, 0x78, 0x67, 0x6f]   -- "b.xgo"
def dotD : Arg := [0x2e, 0x2f, 0x64]               -- "./d"
def cColon : Arg := [0x43, 0x3a, 0x78]             -- "C:x"
def fmtP : Arg := [0x66, 0x6d, 0x74]               -- "fmt"
def trail : Arg := [0x78, 0x2e]                    -- "x." (Ext = ".", not a file)

example : parseAll [aGo, bXgo, dotD, fmtP] = Res.mixed := by decide
example : parseAll [aGo, bXgo] = Res.ok [.files [aGo, bXgo]] := by decide
example : parseAll [dotD, cColon, fmtP, trail] =
    Res.ok [.dir dotD, .dir cColon, .pkg fmtP, .pkg trail] := by decide
example : parseAll [] = Res.ok [] := by decide

end GopModel.Proj
