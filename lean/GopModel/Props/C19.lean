/-
C19 — formatting preserves the syntax tree.

FULL STATEMENT (properties.jsonl): for every syntactically valid XGo source (normal or class
file), the formatter's output parses without errors to a tree equal to the original's except for
positions, comment placement and the order of imports within a group.

The full statement is FALSE on the unchanged tree by design of the printer inherited from gofmt:
redundant parentheses are removed (`((a))` → `(a)`, `if (a) {` → `if a {`, parameter types), see
`C19_nested_parens_collapse` below and known_findings.txt.

PARTIAL: proved here on the model M3 (Model/ExprSyntax.lean) for single-line expressions of the
fragment `wf` whose parentheses are where the parser puts them (`shaped`: every operand that
needs parentheses has an explicit `paren` node, no directly nested parentheses):
the printed items are scanned to exactly the printed tokens and `parser.ParseExpr` returns
the very same tree.  Statements, declarations, comments, import sorting, line breaks, class
files and the M3 node kinds outside `wf` are NOT modelled; for those the property is searched by
`./check C19` (real format.Source on the corpus, generated programs and printed AST mutants;
re-parse; structural comparison modulo positions, comments and import order).
-/
import GopModel.Lemmas.ExprFinal
namespace GopModel.ExprSyntax
open Gen

/-- The parser returns, for the printed form of any well-formed tree, the tree with the
printer's parentheses added and directly nested parentheses collapsed (`norm`). -/
theorem C19_print_parse_norm (e : XExpr) (hwf : wf e = true) :
    ∃ ts, lex (printExpr e) = some ts ∧ parseX ts = .ok (norm e lowestPrec) :=
  ⟨toks e lowestPrec, lex_printExpr hwf, parseX_toks hwf⟩

/-- C19 on M3: printing a parser-shaped expression and parsing it again gives the same tree. -/
theorem C19_print_parse_partial (e : XExpr) (hwf : wf e = true) (hs : shaped e lowestPrec = true) :
    ∃ ts, lex (printExpr e) = some ts ∧ parseX ts = .ok e := by
  obtain ⟨ts, h1, h2⟩ := C19_print_parse_norm e hwf
  exact ⟨ts, h1, by rw [h2, norm_shaped e _ hs]⟩

/-- `blank_sound`: no two adjacent printed tokens without a blank combine (so that the
re-scanned token sequence is the printed one). -/
theorem C19_blank_sound (e : XExpr) (hwf : wf e = true) : lex (printExpr e) ≠ none := by
  rw [lex_printExpr hwf]; intro h; cases h

/-! ### Non-vacuity -/

/-- `(a + b) * -c!.d(a, b)[a]` as the parser builds it. -/
def exShaped : XExpr :=
  .binary .MUL (.paren (.binary .ADD (.ident [0x61]) (.ident [0x62])))
    (.unary .SUB (.index (.call (.selector (.errWrap (.ident [0x63]) .NOT none) [0x64])
      [.ident [0x61], .ident [0x62]] false false) (.ident [0x61])))

example : wf exShaped = true ∧ shaped exShaped lowestPrec = true := by decide

/-- `a?:(b + c)` -/
def exShaped2 : XExpr :=
  .errWrap (.ident [0x61]) .QUESTION (some (.paren (.binary .ADD (.ident [0x62]) (.ident [0x63]))))

example : wf exShaped2 = true ∧ shaped exShaped2 lowestPrec = true := by decide

/-! ### The part of the full statement that does not hold (replayed on the real code by the check:
`x := ((a))` is formatted to `x := (a)`) -/

def exNested : XExpr := .paren (.paren (.ident [0x61]))

set_option maxRecDepth 4000 in
/-- `((a))` is printed as `(a)` and parsed back as `paren a`: one `paren` node is lost. -/
theorem C19_nested_parens_collapse :
    (match lex (printExpr exNested) with
     | some ts => (match parseX ts with
        | .ok (.paren (.ident _)) => true
        | _ => false)
     | none => false) = true := by decide

end GopModel.ExprSyntax
