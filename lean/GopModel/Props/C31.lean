/-
C31 — TPL grammar text parses with the documented operator precedence.

Model: `GopModel.Tpl.parseFile` / `pExpr` (Model/TplParse.lean), a transcription of
tpl/parser/parser.go working on the token list of the real TPL scanner.
Specification side: `printE` prints an expression with the *minimal* parentheses for the
documented precedence  unary (* + ?) > ++ > % > sequence > |  with `%` and `++` left-associative;
`NF` = the trees the notation can denote (no nil operand, Sequence/Choice with ≥ 2 members).

FULL statement proved:
* `C31_print_parse_expr` / `C31_print_parse`: for every `NF` expression, parsing its minimal-parenthesis
  token list yields exactly that expression and no error (in every context that does not continue
  the expression);
* `C31_print_injective`: hence two different trees never share a printing (the notation with this
  precedence is unambiguous);
* `C31_noerr_wellformed` / `C31_illformed_errors`: whenever the parser returns a tree that is not `NF`
  (empty Sequence = "empty rule", nil operand = missing factor, …) it has reported an error;
* `C31_fuel_adequate`: the model's recursion bound is never hit (the parser terminates).
-/
import GopModel.Lemmas.TplPrint
namespace GopModel.Tpl

/-- The parser model always returns (its fuel is sufficient). -/
theorem C31_fuel_adequate (ts : List Tok) : ∃ r, parseFile ts = some r := parseFile_isSome ts

/-- Parsing the minimal-parenthesis printing of a well-formed expression, followed by anything that
does not continue an expression, returns that expression, consumes exactly its tokens and reports
no error. -/
theorem C31_print_parse_expr (e : Expr) (hnf : NF e) (rest : List Tok) (errs : List PErr)
    (hstop : StopExpr rest) :
    pExpr (exprFuel (printE e ++ rest).length) ⟨printE e ++ rest, errs⟩ = some (e, ⟨rest, errs⟩) := by
  obtain ⟨n, hn⟩ := (S_expr e hnf).ex rest errs hstop
  dsimp only at hn
  rw [← printE_eq] at hn
  obtain ⟨e', s', hq, _⟩ := pExpr_adequate ⟨printE e ++ rest, errs⟩
  have h1 := pExpr_mono hq (Nat.le_max_left _ n)
  have h2 := hn _ (Nat.le_max_right (exprFuel (printE e ++ rest).length) n)
  rw [h1] at h2
  rw [hq, h2]

/-- tokens of the rule `name = e ;` (`semi` is any `;` token: written or inserted at a newline) -/
def ruleToks (name : Bytes) (e : Expr) (semi : Tok) : List Tok :=
  ⟨T.IDENT, name⟩ :: opTok T.ASSIGN :: (printE e ++ [semi])

/-- File level: the grammar text `name = <e printed with minimal parentheses> ;` parses to exactly
the rule `name = e`, without error. -/
theorem C31_print_parse (name : Bytes) (e : Expr) (hnf : NF e) (semi : Tok) (hsemi : semi.kind = T.SEMICOLON) :
    parseFile (ruleToks name e semi) = some ⟨[⟨name, e⟩], [], 0⟩ := by
  have hstop : StopExpr [semi] := by
    simp +decide [StopExpr, StopTerm, hsemi]
  have hexpr := C31_print_parse_expr e hnf [semi] [] hstop
  unfold parseFile
  simp only [ruleToks, List.length_cons]
  rw [pFileLoop]
  simp +decide only [PS.tok_mk, hk_cons, if_false]
  have hrule : pRule ⟨⟨T.IDENT, name⟩ :: opTok T.ASSIGN :: (printE e ++ [semi]), []⟩ =
      some (some ⟨name, e⟩, ⟨[], []⟩) := by
    unfold pRule
    simp +decide only [PS.tok_mk, hk_cons, if_true, PS.lit_cons, PS.next_mk_cons, PS.expect, opTok]
    simp only [PS.next]
    rw [hexpr]
    simp +decide [hsemi]
  rw [hrule]
  simp only
  rw [pFileLoop]
  simp [hk]

/-- The notation is unambiguous: different well-formed trees have different printings. -/
theorem C31_print_injective (e₁ e₂ : Expr) (h₁ : NF e₁) (h₂ : NF e₂) (h : printE e₁ = printE e₂) :
    e₁ = e₂ := by
  have a := C31_print_parse_expr e₁ h₁ [] [] (by simp +decide [StopExpr, StopTerm])
  have b := C31_print_parse_expr e₂ h₂ [] [] (by simp +decide [StopExpr, StopTerm])
  rw [h] at a
  rw [a] at b
  cases b
  rfl

/-- If the parser reports no error, every rule's expression is well formed: in particular no rule
is empty (`Sequence{}`) and no operator lacks its operand. -/
theorem C31_noerr_wellformed (ts : List Tok) (r : ParseResult) (h : parseFile ts = some r)
    (herr : r.errs = []) : ∀ rule ∈ r.rules, NF rule.expr :=
  parseFile_noerr_wf (fun _ => True) h (fun _ _ => trivial) herr

/-- Contrapositive, as the property states it: a missing factor (any ill-formed tree in the
result) comes with an error. -/
theorem C31_illformed_errors (ts : List Tok) (r : ParseResult) (h : parseFile ts = some r)
    (rule : Rule) (hr : rule ∈ r.rules) (hbad : ¬ NF rule.expr) : r.errs ≠ [] :=
  fun herr => hbad (C31_noerr_wellformed ts r h herr rule hr)

/-! Non-vacuity and the precedence table on concrete inputs. -/

def tA : Tok := ⟨T.IDENT, [97]⟩
def tB : Tok := ⟨T.IDENT, [98]⟩
def tC : Tok := ⟨T.IDENT, [99]⟩
def tS : Tok := ⟨T.STRING, [34, 120, 34]⟩
def eA : Expr := .ident [97]
def eB : Expr := .ident [98]
def eC : Expr := .ident [99]
def eS : Expr := .lit T.STRING [34, 120, 34]
def semi : Tok := ⟨T.SEMICOLON, [59]⟩

/-- `*a ++ b % "x" c | a`  =  `((((*a) ++ b) % "x") c) | a` -/
def sample : Expr :=
  .choice [.seq [.binary T.REM (.binary T.INC (.unary T.MUL eA) eB) eS, eC], eA]

theorem sample_nf : NF sample := by
  simp +decide [sample, NF, NFP, NFPs, eA, eB, eC, eS]
example : printE sample =
    [opTok T.MUL, tA, opTok T.INC, tB, opTok T.REM, tS, tC, opTok T.OR, tA] := by decide
example : parseFile (ruleToks [100] sample semi) = some ⟨[⟨[100], sample⟩], [], 0⟩ :=
  C31_print_parse _ _ sample_nf semi rfl
example : parseFile (ruleToks [100] sample semi) = some ⟨[⟨[100], sample⟩], [], 0⟩ := by rfl
/-- parentheses override: `*(a | b c)` needs them, and they are printed -/
example : printE (.unary T.MUL (.choice [eA, .seq [eB, eC]])) =
    [opTok T.MUL, opTok T.LPAREN, tA, opTok T.OR, tB, tC, opTok T.RPAREN] := by decide
/-- left associativity: `a % b % c` is `(a % b) % c`; the other nesting needs parentheses -/
example : printE (.binary T.REM (.binary T.REM eA eB) eC) = [tA, opTok T.REM, tB, opTok T.REM, tC] := by decide
example : printE (.binary T.REM eA (.binary T.REM eB eC)) =
    [tA, opTok T.REM, opTok T.LPAREN, tB, opTok T.REM, tC, opTok T.RPAREN] := by decide
/-- missing factors are reported: `d = ;`, `d = a % ;`, `d = * ;`, `d = ( ) ;`, `d = a | ;` -/
example : ((parseFile [⟨T.IDENT, [100]⟩, opTok T.ASSIGN, semi]).map (·.errs.length)) = some 1 := by decide
example : ((parseFile [⟨T.IDENT, [100]⟩, opTok T.ASSIGN, tA, opTok T.REM, semi]).map (·.errs.length)) = some 2 := by decide
example : ((parseFile [⟨T.IDENT, [100]⟩, opTok T.ASSIGN, opTok T.MUL, semi]).map (·.errs.length)) = some 1 := by decide
example : ((parseFile [⟨T.IDENT, [100]⟩, opTok T.ASSIGN, opTok T.LPAREN, opTok T.RPAREN, semi]).map (·.errs.length)) = some 1 := by decide
example : ((parseFile [⟨T.IDENT, [100]⟩, opTok T.ASSIGN, tA, opTok T.OR, semi]).map (·.errs.length)) = some 1 := by decide
example : StopExpr [semi] := by simp +decide [StopExpr, StopTerm]
/-- hypothesis of `C31_illformed_errors` is satisfiable: `d = ;` yields the empty Sequence -/
example : ∃ r, parseFile [⟨T.IDENT, [100]⟩, opTok T.ASSIGN, semi] = some r ∧ ∃ rule ∈ r.rules, ¬ NF rule.expr :=
  ⟨_, rfl, ⟨[100], .seq []⟩, by simp, by simp [NF, NFP]⟩

end GopModel.Tpl
