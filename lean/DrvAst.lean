import GopModel.Driver.Loop
import GopModel.Driver.Walk
open GopModel.Driver
def main : IO Unit := runDriver (dispatchWith [("walk", handleWalk)])
