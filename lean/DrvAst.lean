import GopModel.Driver.Loop
import GopModel.Driver.Walk
import GopModel.Driver.Span
open GopModel.Driver
def main : IO Unit := runDriver (dispatchWith [("walk", handleWalk), ("span", handleSpan)])
