import GopModel.Driver.Loop
import GopModel.Driver.TplMatch
open GopModel.Driver
def main : IO Unit := runDriver (dispatchWith [("tplm", handleTplm)])
