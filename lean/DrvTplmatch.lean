import GopModel.Driver.Loop
import GopModel.Driver.TplMatch
import GopModel.Driver.TplHelpers
open GopModel.Driver
def main : IO Unit := runDriver (dispatchWith [("tplm", handleTplm), ("tplh", handleTplh), ("tplh2", handleTplh2), ("tplc", handleTplc)])
