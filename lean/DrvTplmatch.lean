import GopModel.Driver.Loop
import GopModel.Driver.TplMatch
import GopModel.Driver.TplHelpers
open GopModel.Driver
def main : IO Unit := runDriver (dispatchWith [("tplm", handleTplm), ("tplh", handleTplh), ("tplc", handleTplc)])
