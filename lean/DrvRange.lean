import GopModel.Driver.Loop
import GopModel.Driver.Range
open GopModel.Driver
def main : IO Unit := runDriver (dispatchWith [("rfor", handleRFor), ("renum", handleREnum)])
