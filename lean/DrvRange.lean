import GopModel.Driver.Loop
import GopModel.Driver.Range
import GopModel.Driver.Interp
open GopModel.Driver
def main : IO Unit := runDriver (dispatchWith
  [("rfor", handleRFor), ("renum", handleREnum), ("isplit", handleISplit), ("ival", handleIVal)])
