import GopModel.Driver.All
open GopModel.Driver

partial def loop (hin hout : IO.FS.Stream) : IO Unit := do
  let line ← hin.getLine
  if line.isEmpty then return ()
  let l := if line.endsWith "\n" then (line.dropEnd 1).toString else line
  hout.putStrLn (dispatch l)
  loop hin hout

def main : IO Unit := do
  let hin ← IO.getStdin
  let hout ← IO.getStdout
  loop hin hout
  hout.flush
