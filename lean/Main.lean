import GopModel.Driver.All
open GopModel.Driver
def main : IO Unit := runDriver (dispatchWith handlers)
