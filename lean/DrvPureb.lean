import GopModel.Driver.Loop
import GopModel.Driver.Rearrange
open GopModel.Driver
def main : IO Unit := runDriver (dispatchWith [("c24", handleC24), ("c24x", handleC24x)])
