import GopModel.Driver.Loop
import GopModel.Driver.Rearrange
import GopModel.Driver.Frame
import GopModel.Driver.ImportSort
open GopModel.Driver
def main : IO Unit := runDriver (dispatchWith [
  ("c24", handleC24), ("c24x", handleC24x),
  ("c38r", handleC38r), ("c38w", handleC38w), ("c38id", handleC38id), ("c38ln", handleC38ln),
  ("c23", handleC23)])
