import GopModel.Driver.Loop
import GopModel.Driver.TplFront
open GopModel.Driver
def main : IO Unit := runDriver (dispatchWith
  [("tplparse", handleTplParse), ("tplprint", handleTplPrint), ("tplnew", handleTplNew), ("tplcl", handleTplCl), ("tplnewex", handleTplNewEx)])
