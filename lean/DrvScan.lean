import GopModel.Driver.Loop
import GopModel.Driver.Scan
open GopModel.Driver
def main : IO Unit := runDriver (dispatchWith [("scan", handleScan), ("scanx", handleScanX), ("tokinfo", handleTokInfo), ("golex", handleGoLex), ("shlex", handleShLex)])
