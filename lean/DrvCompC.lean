import GopModel.Driver.Loop
import GopModel.Driver.Overload
import GopModel.Driver.ClassFile
open GopModel.Driver
def main : IO Unit := runDriver (dispatchWith [
  ("c10enc", handleC10Enc), ("c10dec", handleC10Dec), ("c10disp", handleC10Disp),
  ("c11type", handleC11Type)])
