import GopModel.Driver.Loop
import GopModel.Driver.Overload
import GopModel.Driver.ClassFile
import GopModel.Driver.GopStyle
open GopModel.Driver
def main : IO Unit := runDriver (dispatchWith [
  ("c10enc", handleC10Enc), ("c10dec", handleC10Dec), ("c10disp", handleC10Disp), ("c10lam", handleC10Lam),
  ("c11type", handleC11Type),
  ("c25scope", handleC25Scope), ("c25lambda", handleC25Lambda), ("c25lower", handleC25Lower)])
