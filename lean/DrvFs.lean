import GopModel.Driver.Loop
import GopModel.Driver.FS
open GopModel.Driver
def main : IO Unit := runDriver (dispatchWith [("fsprog", handleFsProg), ("fsrun", handleFsRun), ("fssafe", handleFsSafe), ("fsmode", handleFsMode)])
