import GopModel.Driver.Loop
import GopModel.Driver.Conv
open GopModel.Driver
def main : IO Unit := runDriver (dispatchWith [("conv", handleConv), ("togo", handleTogo)])
