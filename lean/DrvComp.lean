import GopModel.Driver.Loop
import GopModel.Driver.Comp
open GopModel.Driver
def main : IO Unit := runDriver (dispatchWith [("evalg", handleEvalG), ("skip", handleSkip), ("gosrc", handleSkip)])
