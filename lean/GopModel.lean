import GopModel.Model.Proj
import GopModel.Props.C35
