#!/bin/bash
# Run a check against a scratch worktree of /repo (with a candidate change applied) without
# touching /repo, /verif/lean, /verif/evidence or /verif/replays.
#   tools/mutcheck.sh <worktree-dir> <Cxx> [quick|thorough]
# Uses a private copy of the lake project (<worktree-dir>.verif/lean) and writes evidence/replays
# under <worktree-dir>.verif/.  Remove <worktree-dir>.verif when done.
set -e
WT=$(readlink -f "$1"); PID=$2; TIER=${3:-quick}
V=/verif
mkdir -p "$WT.verif"
for i in 1 2 3; do rsync -a --delete --exclude .lock "$V/lean/" "$WT.verif/lean/" && break; rc=$?; [ $rc -eq 24 ] && break; sleep 2; done
export VERIF_REPO="$WT" VERIF_LEAN="$WT.verif/lean" VERIF_OUT="$WT.verif"
cd $V && exec ./check "$PID" "$TIER"
