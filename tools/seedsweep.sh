#!/bin/bash
# Unchanged-tree sweep: every registered check at quick tier for several seeds; prints only alarms and a summary.
#   tools/seedsweep.sh "101 102 103" [log]
SEEDS=${1:-"101 102 103"}; LOG=${2:-/tmp/seedsweep.log}
cd "$(dirname "$(readlink -f "$0")")/.."; : > $LOG
for s in $SEEDS; do
for p in $(python3 -c "import json;print(' '.join(c['property_id'] for c in json.load(open('MANIFEST.json'))['checks']))"); do
  out=$(VERIF_SEED=$s timeout 3000 ./check $p quick 2>&1); rc=$?
  if [ $rc -ne 0 ] || echo "$out" | grep -q "^VIOLATION"; then echo "ALARM seed=$s $p rc=$rc: $(echo "$out" | grep -E '^VIOLATION|Traceback' | head -3 | tr '\n' ' ')" >> $LOG; for f in $(echo "$out" | grep -o 'replay=[^ ]*' | cut -d= -f2 | head -3); do python3 -c "import json;d=json.load(open('$f'));print('   key=',d.get('key'),'case=',str(d.get('case'))[:150],'detail=',str(d.get('detail',d.get('no_longer_checks')))[:200])" >> $LOG 2>/dev/null; done; else echo "ok seed=$s $p $(echo "$out" | tail -1 | grep -o 'wall=.*')" >> $LOG; fi
done; done; echo DONE >> $LOG
