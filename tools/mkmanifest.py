#!/usr/bin/env python3
"""Regenerate MANIFEST.json from the per-property modules (checklib/props/cXX.py: MANIFEST dict)
and tools/not_applicable.json. Run after adding or changing a check."""
import importlib, json, os, sys
ROOT = os.path.dirname(os.path.dirname(os.path.abspath(__file__)))
sys.path.insert(0, ROOT)
props = [json.loads(l)["id"] for l in open(os.path.join(ROOT, "properties.jsonl"))]
na_file = os.path.join(ROOT, "tools", "not_applicable.json")
na_reasons = json.load(open(na_file)) if os.path.exists(na_file) else {}
ready_file = os.path.join(ROOT, "tools", "ready.json")
ready = set(json.load(open(ready_file))) if os.path.exists(ready_file) else None
checks, na = [], []
for pid in props:
    path = os.path.join(ROOT, "checklib", "props", pid.lower() + ".py")
    if pid in na_reasons or not os.path.exists(path) or (ready is not None and pid not in ready):
        na.append({"property_id": pid, "reason": na_reasons.get(pid, "check not built yet (work in progress; see DESIGN.md §5 for the plan)")})
        continue
    m = importlib.import_module("checklib.props." + pid.lower()).MANIFEST
    checks.append({
        "property_id": pid,
        "quick_cmd": "./check %s quick" % pid,
        "thorough_cmd": "./check %s thorough" % pid,
        "evidence_file": "/verif/evidence/%s.json" % pid,
        "replay_cmd_template": "./check %s --replay {path}" % pid,
        "engine": "lean4-proof+differential",
        "level_claimed": {"category": m.get("category", "proof"), "text": m["text"], "design_ref": "DESIGN.md §5 " + pid},
        "level_note": m["note"],
        "technique": m["technique"],
    })
man = {
    "version": 1,
    "setup_cmd": "./setup.sh",
    "hooks": {
        "guard": "verif",
        "enable": "go build -tags verif (the harness module /verif/harness replaces github.com/goplus/xgo => /repo)",
        "baseline_off_cmd": "cd /repo && go test -mod=mod -vet=off -count=1 -timeout 25m ./...",
        "source_commits": json.load(open(os.path.join(ROOT, "tools", "hook_commits.json"))) if os.path.exists(os.path.join(ROOT, "tools", "hook_commits.json")) else [],
        "add_only": True,
    },
    "engines": [{
        "name": "lean4-proof+differential", "path": "/verif/check",
        "serves_properties": [c["property_id"] for c in checks],
        "kind_free_text": "Lean 4 theorems over executable models (lean/GopModel), tied to /repo on every run by a translator (extract/) and/or a differential correspondence run of the real Go code (harness/) against the compiled model (gopdriver)",
    }],
    "checks": checks,
    "not_applicable": na,
    "notes": "All checks share ./check; see DESIGN.md. Known findings: known_findings.txt.",
}
json.dump(man, open(os.path.join(ROOT, "MANIFEST.json"), "w"), indent=1)
print("checks:", len(checks), "not_applicable:", len(na))
