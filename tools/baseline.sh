#!/bin/bash
# Run /repo's pinned test suite (guard OFF) on a snapshot of /repo HEAD and compare with BASELINE.json stable_pass.
#   tools/baseline.sh [out-prefix]
OUT=${1:-/tmp/baseline.$$}
WT=$OUT.wt
git -C /repo worktree add -q --detach "$WT" HEAD || exit 2
trap 'git -C /repo worktree remove --force "$WT"; git -C /repo worktree prune' EXIT
echo "snapshot: $(git -C $WT rev-parse --short HEAD)" > $OUT.summary
(cd "$WT" && env -u GOFLAGS GOPROXY=off GOSUMDB=off GOTOOLCHAIN=local go test -mod=mod -json -vet=off -count=1 -timeout 50m ./... > $OUT.json 2> $OUT.err)
python3 - "$OUT.json" "$WT" >> $OUT.summary <<'PY'
import json,sys
base=set(json.load(open('/root/.vp/BASELINE.json'))['stable_pass'])
res={}
for l in open(sys.argv[1]):
    try: e=json.loads(l)
    except: continue
    if e.get('Test') and e.get('Action') in('pass','fail','skip'):
        res[e['Package']+'::'+e['Test'].replace(sys.argv[2],'/repo')]=e['Action']
missing=[t for t in base if res.get(t)!='pass']
print('baseline tests:',len(base),'passing now:',len(base)-len(missing))
for t in sorted(missing): print('NOT PASSING:',t,res.get(t))
PY
cat $OUT.summary
