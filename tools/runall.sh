#!/bin/bash
# Run every registered check (tier $1, default quick) sequentially; summary to $2 (default /tmp/runall.log)
TIER=${1:-quick}; LOG=${2:-/tmp/runall.log}
cd "$(dirname "$(readlink -f "$0")")/.."; : > $LOG
for p in $(python3 -c "import json;print(' '.join(c['property_id'] for c in json.load(open('MANIFEST.json'))['checks']))"); do
  s=$(date +%s); out=$(timeout 3000 ./check $p $TIER 2>&1); rc=$?; e=$(date +%s)
  echo "$p rc=$rc t=$((e-s))s $(echo "$out" | grep -c '^VIOLATION') viol; $(echo "$out" | grep -c '^KNOWN-FINDING') known; $(echo "$out" | tail -1 | cut -c1-120)" >> $LOG
  if [ $rc -ne 0 ]; then echo "$out" | grep -E "VIOLATION|Traceback|Error" | head -5 >> $LOG; fi
done
echo DONE >> $LOG
