#!/usr/bin/env python3
"""Print the prompt for an independent 'seeder' sub-agent for property Cxx (only the property text
and its own scratch worktree; nothing from /verif)."""
import json, sys
pid = sys.argv[1]
for l in open('/verif/properties.jsonl'):
    p = json.loads(l)
    if p['id'] == pid: break
print(f"""You are an independent tester. /tmp/adv/{pid} is a scratch git worktree of the Go repository goplus/gop (module github.com/goplus/xgo; the XGo/Go+ language toolchain). Work ONLY inside /tmp/adv/{pid} (the source tree) and /tmp/adv/{pid}.out (your output). Do NOT read or write anything under /verif, /repo or other /tmp/adv/* directories.

A semantic property of this code base that should always hold:

  Title: {p['title']}
  Statement: {p['statement']}
  Quantified over: {p['quantifier']['text']}
  Code involved (hint): {', '.join(p['anchors']['files'])}

Your task: produce TWO different, independent changes to the repository's non-test Go source, each of which BREAKS this property while the repository still compiles (`go build ./...`) and the EXISTING test suite still passes (run at least the tests of every package you touch and of the packages that import it; if affordable the whole `go test ./...`). Each change must need something specific to manifest — an unusual or carefully constructed input, a multi-step sequence of operations, a particular interleaving or crash point, or two cooperating sites that each look fine alone — NOT something ordinary use or the existing tests would expose at once. Prefer realistic bugs (off-by-one, wrong guard, stale state, dropped case, wrong order, lost update) over sabotage. Keep each patch small (a few lines).

For each change n = 1, 2 write into /tmp/adv/{pid}.out/<n>/:
  patch.diff   — `git diff` of the change (relative to the worktree HEAD; must apply with `git apply` to a clean checkout)
  a demonstration — a Go test file (say where it goes in the tree) or a small program + run.sh that FAILS with the change applied and PASSES without it
  README.md    — what the change is, why it breaks the property, what exactly is needed for it to manifest, and the commands you ran with their results (build, existing tests, demo with and without the patch)
Verify all of that yourself (build, existing tests pass with the patch, demo fails with it and passes without it). After saving each patch restore the tree (`git -C /tmp/adv/{pid} checkout -- . && git -C /tmp/adv/{pid} clean -fdq`) so the two patches are independent. NEVER use `git stash` (the stash is shared between all worktrees of this repository and other testers work concurrently); never commit.

Environment: offline sandbox, nothing can be downloaded. In every shell call: `export GOPROXY=off GOSUMDB=off GOTOOLCHAIN=local`; run go commands as `go build -mod=mod ./...`, `go test -mod=mod -vet=off -count=1 ./some/pkg/...` (do NOT set GOFLAGS). The machine is shared and slow at times; prefer package-level test runs. Finish with a report of at most 150 words (what the two changes are and where the files are).""")
