#!/bin/bash
# Confirm a seeded change and run the registered check against it, without touching /repo.
#   tools/seedcheck.sh seeded/<name> [quick|thorough]
# seeded/<name>/ holds patch.diff, meta.json {"property": "Cxx", ...}, and a demonstration
# (demo_test.go placed by meta.demo_dir, or demo.sh).  Steps:
#   1. scratch worktree of /repo HEAD under /tmp/seedcheck.$$, apply patch, go build ./...
#   2. (optional, SEED_TESTS=1) run the repo tests of packages that import the touched packages
#   3. run the property's check against the worktree via tools/mutcheck.sh; print its verdict
set -u
S=$(readlink -f "$1"); TIER=${2:-quick}
PID=$(python3 -c "import json,sys;print(json.load(open('$S/meta.json'))['property'])")
WT=/tmp/seedcheck.$$/wt
mkdir -p /tmp/seedcheck.$$
git -C /repo worktree add -q --detach "$WT" HEAD || exit 2
cleanup() { git -C /repo worktree remove --force "$WT" 2>/dev/null; rm -rf /tmp/seedcheck.$$; git -C /repo worktree prune; }
trap cleanup EXIT
if ! git -C "$WT" apply "$S/patch.diff"; then echo "SEED $1: patch does not apply to current /repo HEAD"; exit 3; fi
export GOPROXY=off GOSUMDB=off GOTOOLCHAIN=local
(cd "$WT" && go build -mod=mod $(go list -mod=mod ./... | grep -v /demo/) ) || { echo "SEED $1: does not build"; exit 3; }
if [ "${SEED_TESTS:-0}" = 1 ]; then
  PKGS=$(cd "$WT" && git diff --name-only | xargs -n1 dirname | sort -u | sed 's#^#./#')
  echo "touched: $PKGS"
  (cd "$WT" && go test -mod=mod -vet=off -count=1 $PKGS 2>&1 | grep -E "^(ok|FAIL|---)" )
fi
/verif/tools/mutcheck.sh "$WT" "$PID" "$TIER" > /tmp/seedcheck.$$/out.txt 2>&1
RC=$?
grep -E "VIOLATION|KNOWN-FINDING|obligations=" /tmp/seedcheck.$$/out.txt | head -8
if [ $RC -eq 1 ] && grep -q "^VIOLATION property=$PID" /tmp/seedcheck.$$/out.txt; then
  if grep "^VIOLATION" /tmp/seedcheck.$$/out.txt | grep -qv "no-failing-input-found"; then echo "SEED $1: CAUGHT (concrete input)"; else echo "SEED $1: CAUGHT (no-failing-input-found)"; fi
else
  echo "SEED $1: MISSED (rc=$RC)"; tail -5 /tmp/seedcheck.$$/out.txt
fi
rm -rf "$WT.verif"
