#!/usr/bin/env python3
"""Round-2 seeder prompt: like advprompt.py but lists the changes already tried (summaries only) and asks for different ones."""
import glob, json, os, subprocess, sys
pid = sys.argv[1]
base = subprocess.run([sys.executable, os.path.join(os.path.dirname(__file__), "advprompt.py"), pid], capture_output=True, text=True).stdout
base = base.replace("/tmp/adv/%s" % pid, "/tmp/adv2/%s" % pid)
tried = []
for m in sorted(glob.glob("/verif/seeded/%s-*/meta.json" % pid)):
    d = json.load(open(m))
    tried.append("  - " + str(d.get("summary", ""))[:300])
extra = ("\nOther testers have ALREADY tried the following changes for this property; yours must be different in kind "
         "(different function or mechanism, different triggering input class), not variations of these:\n" + "\n".join(tried) + "\n"
         "Look for less obvious places: helper functions the main path calls, state carried between calls, rarely taken branches, "
         "interactions between two features, boundary values, error paths.\n"
         "(Extra note: the tests of package x/typesutil take very long offline and need not be run; run `cl` tests with `-timeout 90m` only if relevant.)\n")
print(base.replace("Your task: produce TWO", extra + "\nYour task: produce TWO"))
