#!/bin/bash
# MANIFEST.setup_cmd: build the framework offline from files on disk.
set -e
cd "$(dirname "$0")"
export GOFLAGS=-mod=mod GOPROXY=off GOSUMDB=off GOTOOLCHAIN=local CGO_ENABLED=0
mkdir -p .work evidence replays lean/GopModel/Generated
cp /repo/go.sum harness/go.sum
# translator: regenerate all Generated/*.lean from the current /repo
if [ -f extract/main.go ]; then
  (cd extract && go build -o ../.work/extract . && ../.work/extract -repo /repo -out ../lean/GopModel/Generated all)
fi
# Lean: whole library + driver
(cd lean && lake build 2>&1 | tail -5)
# Go harness: warm the build cache
(cd harness && go build -tags verif -o /dev/null ./... 2>&1 | tail -5) || true
echo setup done
