package	p

var	a	=	1
var  b	 =  	2 

func	f(	x	int	,	y	int	)	int	{	return	x	+	y	}
