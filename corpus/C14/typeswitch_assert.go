package p

type S interface{ M() }

func f(x interface{}) int {
	switch v := x.(type) {
	case nil:
		return 0
	case int, int8:
		_ = v
	case []int:
		return len(v)
	case map[string]int:
		return v["a"]
	case func(int) int:
		return v(1)
	case interface{ M() }:
		v.M()
	case *struct{ a int }:
		return v.a
	case chan<- int, <-chan int:
	default:
	}
	switch x.(type) {
	}
	switch y := 1; z := x.(type) {
	case S:
		_, _ = y, z
	}
	if s, ok := x.(S); ok {
		s.M()
	}
	_ = x.(interface{}).(interface{ M() }).M
	return x.(int)
}
