package p

var (
	a = 1. + .5 + 1e3 + 1E3 + 1e+3 + 1E-3 + 1_0.2_5e1_0
	b = 0x1p4 + 0X1P-2 + 0x1.8p+1 + 0x.8p0 + 0X_1.Fp+0_2 + 0x1P0
	c = 1i + 1.5i + 1e3i + 0x1p-2i + .5i
)
