package p

func v(a int, xs ...int) int { return a }

func w() (int, int) { return 1, 2 }

func f(xs []int, t struct{ f func(int) int; p *struct{ g func() func() int } }) {
	v(1)
	v(1, 2, 3)
	v(1, xs...)
	v(w())
	v(
		1,
		2,
	)
	_ = t.f(t.f(1))
	_ = t.p.g()()
	_ = append(xs, xs...)
	_ = append([]byte("a"), "b"...)
	_ = make([]int, 1, 2)
	_ = make(map[string][]int)
	_ = new(struct{ x int }).x
	_ = len(xs[1:]) + cap(xs)
	copy(xs, xs[1:])
	print()
	println(1, "a")
	_ = min(1, 2, 3) + max(1, 2)
	clear(xs)
	panic(recover())
}
