package p

type K struct{ a, b int }

func f(m map[K]int, mm map[K]map[string][]int, k K) int {
	if m[K{1, 2}] == 0 {
		return 1
	}
	switch m[K{}] {
	case 1:
	}
	for x := range mm[K{1, 2}] {
		_ = x
	}
	for m[K{a: 1}] < 3 {
		break
	}
	if v := m[K{1, 2}]; v > 0 {
		return v
	}
	for i := m[K{}]; i < m[K{2, 3}]; i += m[K{1, 1}] {
	}
	return 0
}
