package p

import "sync"

type E struct{}

type P struct{ x int }

type T struct {
	A, B int    `json:"a,omitempty" xml:"b"`
	C    string "plain"
	E
	*P       `k:"v"`
	_   [4]byte
	f   func(int) (int, error)
	g, h struct {
		x, y int `t:"1"`
	}
	i interface {
		M()
	}
	sync.Mutex
	*sync.Once "tag"
}
