package p

func f(xs []int) {
	if func() bool { return len(xs) > 0 }() {
	}
	for _, g := range []func() int{func() int { return 1 }} {
		_ = g()
	}
	switch func() int { return 1 }() {
	case 1:
	}
	for i := func() int { return 0 }(); i < 3; i++ {
	}
	defer func() {
		if r := recover(); r != nil {
		}
	}()
	go func(n int) {}(1)
}
