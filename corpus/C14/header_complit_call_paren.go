package p

type K struct{ a, b int }

func pk(k K, ks ...K) bool { return k.a < len(ks) }

func f(k K) {
	if pk(K{1, 2}, K{}, K{a: 1}) {
	}
	if (K{1, 2}) == k {
	}
	if k == (K{}) || (k != K{1, 1}) {
	}
	for _, v := range []K{{1, 2}, {}} {
		_ = v
	}
	for range [...]int{1, 2} {
	}
	switch (K{1, 2}).a {
	case 1:
	}
	if len(map[K]int{{1, 2}: 3}) > 0 {
	}
	if _, ok := (map[K]int{})[K{}]; !ok {
	}
	if struct{ x int }{1}.x > 0 {
	} else if (struct{}{}) == struct{}{} {
	}
}
