package p

var a = 1

func f() int {
	x := a // c
	return x /* c */
}
