package p

func f(a, b int, p *int, c chan int, x, y bool) {
	_ = -a - -b
	_ = a - +b
	_ = ^a ^ ^b
	_ = a & ^b
	_ = a &^ b
	_ = a<<2 | b>>1&3
	_ = a*b + a/b - a%b
	_ = *p * *p
	_ = &*p
	_ = -<-c
	_ = <-c + <-c
	_ = !x == !y != (x && y || !x && !y)
	_ = a == b == x
	_ = a < b == (a <= b) != (a > b) == (a >= b)
	a += b; a -= b; a *= b; a /= b; a %= b; a &= b; a |= b; a ^= b; a <<= 1; a >>= 1; a &^= b
	a++
	b--
	*p++
	(*p)--
}
