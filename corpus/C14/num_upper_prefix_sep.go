package p

const (
	a = 0X_1F
	b = 0B_1
	c = 0O_7
	d = 0XA_B
	e = 0X1_F
	f = 0X_1FFFP-16
	g = 0XDEAD_BEEFi
	h = 0x_1f + 0b_1 + 0o_7
)
