package p

type T struct {
	a int
	p *T
	f func()
}

func f(t *T, c chan int, xs []int, m map[string]int) {
	(*t).a = 1
	(t).p.a = 2
	*t = T{}
	t.p.p.f()
	(t.f)()
	[]int{1}[0]++
	map[string]int{}["a"]++
	[]func(){func() {}}[0]()
	struct{ f func() }{func() {}}.f()
	func() {}()
	<-c
	c <- <-c
	xs[0], m["a"] = m["b"], xs[1]
	m["x"]++
	xs[len(xs)-1]--
	_ = 1
	;
	{
	}
}
