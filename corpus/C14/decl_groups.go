package p

import ()

import (
	"fmt"
	_ "os"
	. "strings"
	str "strconv"
)

var ()

var (
	a, b = 1, "s"
	c    []int
	d    = map[string]int{"a": 1}
)

type ()

type (
	A = int
	B []A
	C func(A, ...string) (B, error)
	D struct{}
	E interface{}
)

const ()

var _ = fmt.Sprint
var _ = str.Itoa
var _ = ToUpper

func init() {}
func init() {}
