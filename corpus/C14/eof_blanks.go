package p

type T struct{} 	 
 	 