package p

type Größe struct{ wért, π int }

const ΔT = 1

var 变量, ñandú = 1, "s"

func (g *Größe) Äquivalent(ж int) (θ float64) {
	étiquette:
	for ι := 0; ι < ж; ι++ {
		if ι > g.π {
			break étiquette
		}
		g.wért += ι * ΔT
	}
	_, _ = 变量, ñandú
	return θ
}
