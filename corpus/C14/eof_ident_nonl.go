package p

var z int