// Package p doc.
package p // trailing

/* block */ import /* a */ "fmt" // b

// F doc
func F( /* no params */ ) /* result */ int { // open
	// leading
	x := /* mid */ 1 + /* mid2 */ 2 // trailing
	/* before */ fmt.Println( // after paren
		x, // after arg
		/* before arg */ x,
	) /* after call */
	if /* c */ x > 0 /* d */ { /* e */
	} /* f */ else /* g */ {
	}
	return x /* end */
} // close

/*
multi
line
*/
var _ = 1 //line directive-like: not one
