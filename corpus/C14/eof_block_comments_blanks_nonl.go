package p

var y = []int{1, 2} /* a */ /* b */ 	