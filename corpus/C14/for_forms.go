package p

func f(xs []int, m map[string]int, c chan int, s string) {
	for {
		break
	}
	for len(xs) > 0 {
		xs = xs[1:]
	}
	for i := 0; i < 3; i++ {
	}
	for i, j := 0, 3; i < j; i, j = i+1, j-1 {
	}
	for ; ; {
		break
	}
	for i := 0; i < 3; {
		i++
	}
	for range xs {
	}
	for i := range xs {
		_ = i
	}
	for i, v := range xs {
		_, _ = i, v
	}
	for _, v := range m {
		_ = v
	}
	for k := range m {
		delete(m, k)
	}
	var i, v int
	for i, v = range xs {
	}
	for i = range s {
	}
	for v := range c {
		_ = v
	}
	for i := range 10 {
		_ = i
	}
	for range 3 {
	}
	_, _ = i, v
}
