package p

var (
	a chan int
	b chan<- int
	c <-chan int
	d chan<- chan int
	e chan<- <-chan int
	f <-chan <-chan int
	g chan (<-chan int)
	h <-chan (chan<- int)
	i chan<- func()
	j []chan<- []<-chan map[string]chan int
	k = (<-chan int)(nil)
	l = (chan<- int)(a)
	m = <-(<-chan int)(a)
	n func(<-chan int) chan<- int
)
