package p

type Color int

const (
	Red Color = iota
	Green
	Blue
	_
	Last = iota * 10
)

const (
	KB = 1 << (10 * (iota + 1))
	MB
	GB
)

const (
	a, b = iota, -iota
	c, d
	_, _
	e uint8 = 1 << iota
)

const x, y float64 = 1, 2.5
const s = "a" + "b"
