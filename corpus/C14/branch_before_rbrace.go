package p

func f() {
	for { break }
	for { continue }
L:
	for { goto L }
	switch { case true: break }
}
