package p

type T struct{}

type K struct{ a, b int }

type List[E any] struct{ items []E }

func Map[A, B any](xs []A, f func(A) B) []B { return nil }

func f(any interface{}) {
	_ = (*[]map[string]chan int)(nil)
	_ = ((func(int, ...string) (int, error)))(nil)
	_ = (interface{ M(*T) []K })(nil)
	_ = [](chan (<-chan int))(nil)
	_ = map[[2]int]*[3][]func() struct{ x, y *T }(nil)
	_ = new(struct{ f func(chan<- int) <-chan int; g, h map[K][]*T })
	_ = new([2][]map[string]*[1]chan<- func())
	_ = make(chan func(chan int) chan<- int, 1)
	_ = make([]interface{ M() }, 1, 2)
	_ = make(map[*T][]func(...interface{}) (r int))
	_ = [...]*T{nil, 2: nil}
	_ = []struct{ a []int }{{[]int{1}}, {}}
	_ = map[K][][2]*T{{1, 2}: {{nil, nil}}}
	_, _ = any.(func(*T) [2]map[string]int)
	_, _ = any.(*struct{ f chan<- chan<- int })
	switch v := any.(type) {
	case *[]*T, map[K]chan int:
		_ = v
	case func(), func(int), struct{ x int }, [2]*T, interface{ M() }:
	}
	_ = Map[*T, []chan int]
	_ = Map[map[string]int, func() <-chan int](nil, nil)
	_ = List[struct{ f *List[[]K] }]{}
	_ = func(x *[]T, ys ...map[K]*T) (r chan<- []int, err error) { return }
	_ = func(func(func(*T) []K) map[string]T) {}
}
