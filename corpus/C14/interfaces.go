package p

import "fmt"

type R interface {
	Read(p []byte) (n int, err error)
}

type W interface {
	Write([]byte) (int, error)
}

type RW interface {
	R
	W
	Close() error
	fmt.Stringer
}

type E interface{}

type F interface {
	M(x, y int, _ ...string) (r float64)
	N()
	error
}

var _ interface {
	R
	String() string
}
