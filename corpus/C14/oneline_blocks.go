package p

func f(c chan int, x int) {
	for { break }
	for x > 0 { x--; continue }
	if x > 0 { x = 1 } else { x = 2 }
L:	for { goto L }
	switch x { case 1: x = 2; fallthrough; case 2: break; default: return }
	select { case <-c: return; default: }
	func() { return }()
}
