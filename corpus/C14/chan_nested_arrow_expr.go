package p

func f(c chan int, any interface{}) {
	_ = (<-chan <-chan int)(nil)
	_ = (<-chan <-chan <-chan int)(nil)
	_ = (<-chan chan<- <-chan int)(nil)
	_ = make(<-chan <-chan int)
	_ = make(<-chan <-chan <-chan []int, 1)
	_ = new(<-chan <-chan int)
	_ = new(<-chan (<-chan int))
	_ = new(chan<- <-chan int)
	_ = []<-chan <-chan int{nil}
	_ = map[string]<-chan <-chan int{}
	_, _ = any.(<-chan <-chan int)
	switch any.(type) {
	case <-chan <-chan int, chan<- <-chan int:
	}
	_ = func(<-chan <-chan int) <-chan <-chan int { return nil }
	_ = <-(<-chan int)(c)
	_ = <-<-(<-chan <-chan int)(nil)
}
