package p

var s = []string{"", "a\tb\n", "\x41\xff\101\377é\U0001F600", "\"'\\", `raw \n "q"`, `multi
line`, "é世", "\a\b\f\r\v", `$`, "$", "50$ {x}", "a$b"}
