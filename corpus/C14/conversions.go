package p

type T struct{}

type Color int

func f(s string, x int, xs []int, sh interface{ Area() float64 }) {
	_ = []byte(s)
	_ = []rune(s)
	_ = string(rune(x))
	_ = (*T)(nil)
	_ = (func(int) int)(nil)
	_ = (chan<- int)(nil)
	_ = Color(x)
	_ = interface{}(x)
	_ = (interface{ Area() float64 })(sh)
	_ = map[string]int(nil)
	_ = []int(nil)
	_ = (*[2]int)(xs)
	_ = [2]int(xs)
	_ = struct{}(struct{}{})
	_ = float64(x) / 2
	_ = complex(1, 2)
	_ = uintptr(0)
}
