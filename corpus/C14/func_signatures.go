package p

func a()                                   {}
func b(int, string)                        {}
func c(x, y int, s ...string) (n int, err error) { return }
func d(func(int) func() int) func(...int)  { return nil }
func e(_ int, _ ...interface{}) (_ int)    { return 0 }
func f(x [3]int, y []*[2]map[string]chan int) ([]int, map[int]struct{}) { return nil, nil }

type T int

func (T) M0()              {}
func (t T) M1()            {}
func (t *T) M2(T) *T       { return t }
func (_ *T) M3()           {}
func (*T) M4() (a, b int)  { return }

var g = func(f func(func(int) int) func() int, xs ...[]int) (<-chan int, chan<- int) { return nil, nil }
var h func()
