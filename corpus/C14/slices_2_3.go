package p

func f(xs []int, s string, a [4]int, p *[4]int, i, j, k int) {
	_ = xs[:]
	_ = xs[i:]
	_ = xs[:j]
	_ = xs[i:j]
	_ = xs[i:j:k]
	_ = xs[:j:k]
	_ = s[i:j]
	_ = a[1:2:3]
	_ = p[:2]
	_ = xs[i+1 : j*2 : k<<1]
	_ = xs[f2(i):][0]
	if xs[1:2:3][0] > xs[:2][0] {
	}
}

func f2(i int) int { return i }
