package p

var x (int)
var y [](int)

type T (int)
type U ([]T)

func f(a (int), b ...(string)) (r (T)) {
	_ = ((a))
	_ = (a) + ((a) * (a))
	_ = (f)(a)
	_ = (*(&a))
	_ = ([]int)(nil)
	_ = ((func())(nil))
	var p (*int) = (&a)
	_ = (*p)
	return (T)(a)
}
