package p

func f() {
	var x int
	var y, z = 1, "s"
	var (
		a []int
		b = func() {}
	)
	const c = 1
	const (
		d = iota
		e
	)
	type T struct{ x int }
	type (
		U = T
		V []U
	)
	type W interface{ M(T) V }
	_, _, _, _, _, _, _ = x, y, z, a, b, c+d+e, V{}
	var _ W
}
