package p

func f(in, echo, printf, tpl, py, c, C, this, println2, errorf, fatal, lambda, unit, r, km int) (html string) {
	in = echo
	printf++
	tpl, py = py, tpl
	c = C
	x := in + echo - printf*tpl/py
	_ = x
	for in := range 3 {
		_ = in
	}
	if in > c {
	}
	_ = [3]int{c, C, in}
	_ = map[string]int{"in": in}
	return
}
