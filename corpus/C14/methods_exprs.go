package p

type T struct{ f func(int) int }

func (t T) M(int) int   { return 0 }
func (t *T) P(...int)   {}

var (
	a = T.M
	b = (*T).P
	c = (*T).M
	d = T{}.M
	e = (&T{}).P
	f = T{}.f
	g = (T{}).M(1)
	h = (*T)(nil)
	i = []func(T, int) int{T.M}
	j = (func(T, int) int)(T.M)
)
