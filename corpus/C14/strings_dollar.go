package p

var (
	a = "$"
	b = "$$"
	c = "cost: 5$"
	d = "a$b"
	e = `${x}`
	f = "$" + "{"
	g = "\x24{x}"
)
