package p

func f(n int) int {
	i := 0
Loop:
	for {
		switch {
		case i > n:
			break Loop
		case i%2 == 0:
			i++
			continue Loop
		}
		i += 2
	}
	goto End
End:
	if i > 0 {
		goto Done
	}
	i = 1
Done:
	return i
}

func g() {
L:
	{
		goto L
	}
M:
	for i := 0; i < 2; i++ {
		for {
			continue M
		}
	}
N:
	select {
	default:
		break N
	}
	goto O
O:
}
