package p

func f(g func(int, int) func(int)) {
	g (1, 2) (3)
}
