package p

import "fmt" /* after import */

var a = 1 /* one */ /* two */
var b = 2 /* multi
line */ var c = 3
var d = a + /* inside */ b /*x*/ // trailing

func f() (r int) { /* body */
	r = a /* a */
	r++ /* b */ /* c */
	fmt.Println(r) /* multi
	line ends the statement */ r--
	return /* bare */
} /* end */
