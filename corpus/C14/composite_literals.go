package p

type P struct{ x, y int }

var (
	a = []int{1, 2, 3}
	b = []int{2: 1, 5: 2, 3}
	c = [...]string{"a", 3: "b"}
	d = [2][2]int{{1, 2}, {3, 4}}
	e = map[string][]int{"a": {1}, "b": nil, "c": {}}
	f = map[P]string{{1, 2}: "a", {}: "b"}
	g = []*P{{1, 2}, nil, {x: 1}}
	h = []P{{}, {1, 2}, P{3, 4}}
	i = struct{ a, b int }{1, 2}
	j = &P{y: 1}
	k = [][]P{{{1, 2}}, {}}
	l = map[string]map[string]int{"a": {"b": 1}}
	m = []interface{}{1, "a", nil, P{}, []int{}, func() {}}
	n = [...]struct{ a int }{{1}, {a: 2}}
	o = []int{
		1,
		2,
	}
)
