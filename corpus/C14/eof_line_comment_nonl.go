package p

const c = "s" // no newline after this comment