package p

func f(a, b chan int, c chan<- string, d <-chan []int, arr []int) {
	select {
	case v := <-a:
		_ = v
	case v, ok := <-b:
		_, _ = v, ok
	case c <- "s":
	case arr[0] = <-a:
	case arr[1], _ = <-b:
	case <-d:
	case xs := <-d:
		_ = xs[0]
	default:
	}
	select {}
	for {
		select {
		case a <- <-b:
			continue
		}
		break
	}
}
