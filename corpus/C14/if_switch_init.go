package p

func g() (int, error) { return 0, nil }

func f(x int) int {
	if x > 0 {
	} else if x < 0 {
	} else {
	}
	if y := x * 2; y > 3 {
		return y
	} else if z, err := g(); err != nil {
		return z
	} else {
		return y + z
	}
	switch y := x; {
	case y > 0:
	}
	switch x := x + 1; x {
	case 1, 2, 3:
		fallthrough
	case 4:
	default:
	}
	switch {
	}
	switch x {
	}
	if x++; x > 0 {
	}
	if ; x > 0 {
	}
	return 0
}
