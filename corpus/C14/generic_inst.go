package p

func Map[T, U any](xs []T, f func(T) U) []U { return nil }

type List[T any] struct{ items []T }

func (l *List[T]) Len() int { return len(l.items) }

type Pair[K comparable, V any] struct {
	Key K
	Val V
}

var (
	a = Map[int, string](nil, nil)
	b = Map([]int{1}, func(i int) int { return i })
	c List[int]
	d = Pair[string, List[int]]{}
	e = (*List[Pair[int, string]]).Len
	f = []Pair[int, string]{{1, "a"}, {Key: 2}}
	g = Map[int, int]
)
