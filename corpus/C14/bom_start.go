﻿package p

var a = 1
