package p

var x = 1

func f() int { return x } /* trailing */